#!/bin/bash
# usage: tools/snap_run.sh <slot> <logfile> <seeded ids...>
# Copies /verif (without target/ and evidence history) to /dev/shm/verif-snap.<slot> and runs the seeded
# changes from that copy, so that /verif/harness/src can be edited while the run is in progress.
slot="$1"; log="$2"; shift 2
snap="/dev/shm/verif-snap.$slot"
rm -rf "$snap"; mkdir -p "$snap"
rsync -a --exclude target --exclude .git --exclude replays /verif/ "$snap/"
VERIF_HOME="$snap" MUT_SLOT="$slot" "$snap/tools/seeded_run.sh" "$@" > "$log" 2>&1
rm -rf "$snap"
