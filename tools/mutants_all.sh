#!/bin/bash
# runs every mutant of mutants/mutants.json against the checks named there; appends to the log given as $1
log="${1:-/dev/shm/mutants_all.log}"
: > "$log"
python3 - <<'PY' > /dev/shm/mutant_plan.txt
import json
d=json.load(open('/verif/mutants/mutants.json'))
for k in sorted(d): print(k," ".join(d[k]['properties']))
PY
while read -r id props; do
  [ -f "/verif/mutants/$id.patch" ] || continue
  /verif/tools/mutant.sh "/verif/mutants/$id.patch" $props >> "$log" 2>&1
done < /dev/shm/mutant_plan.txt
echo DONE >> "$log"
