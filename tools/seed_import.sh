#!/bin/bash
# usage: tools/seed_import.sh <prop> <variant> <src-out-dir> [src-prefix]
# Confirms an agent-produced seeded change in a scratch worktree (never /repo):
#   demo passes on HEAD, patch applies, repo tests pass with it, demo fails with it.
# On success stores it as /verif/seeded/<prop>-<variant>/{patch.diff,demo.sh,meta.json}.
set -u
prop="$1"; var="$2"; src="$3"; pfx="${4:-$var}"
dst="/verif/seeded/$prop-${SEED_TAG:-}$var"
wt="/dev/shm/seedconfirm.$prop$var"
log="/dev/shm/seedconfirm.$prop$var.log"
rm -rf "$wt"; git -C /repo worktree prune
git -C /repo worktree add -q --detach "$wt" HEAD || exit 2
trap 'git -C /repo worktree remove --force "$wt" 2>/dev/null; rm -rf "$wt"' EXIT
mkdir -p /dev/shm/seedconfirm-target && ln -s /dev/shm/seedconfirm-target "$wt/target"   # shared, incremental
export CARGO_NET_OFFLINE=true RUST_BACKTRACE=0
cd "$wt"
{
echo "== demo on clean HEAD"; bash "$src/$pfx.demo.sh" "$wt"; clean_rc=$?; echo "rc=$clean_rc"
git checkout -q -- .
echo "== apply"; git apply "$src/$pfx.patch.diff"; apply_rc=$?; echo "rc=$apply_rc"
echo "== repo tests with patch"; cargo test --workspace --no-fail-fast --offline 2>&1 | grep -E "^test result|FAILED|panicked" ; 
tests_ok=$(cargo test --workspace --no-fail-fast --offline 2>&1 | grep -c "^test result: ok")
echo "ok_suites=$tests_ok"
echo "== demo with patch"; bash "$src/$pfx.demo.sh" "$wt"; patched_rc=$?; echo "rc=$patched_rc"
} > "$log" 2>&1
clean_rc=$(grep -A100 "== demo on clean" "$log" | grep -m1 "^rc=" | cut -d= -f2)
apply_rc=$(grep -A3 "== apply" "$log" | grep -m1 "^rc=" | cut -d= -f2)
tests_ok=$(grep -m1 "^ok_suites=" "$log" | cut -d= -f2)
patched_rc=$(grep -A1000 "== demo with patch" "$log" | grep "^rc=" | tail -1 | cut -d= -f2)
status="REJECTED"
if [ "$clean_rc" = "0" ] && [ "$apply_rc" = "0" ] && [ "$tests_ok" = "4" ] && [ "$patched_rc" != "0" ] && [ -n "$patched_rc" ]; then status="CONFIRMED"; fi
echo "$prop-$var $status (demo clean rc=$clean_rc, apply rc=$apply_rc, test suites ok=$tests_ok/4, demo patched rc=$patched_rc)"
if [ "$status" = "CONFIRMED" ]; then
  mkdir -p "$dst"
  cp "$src/$pfx.patch.diff" "$dst/patch.diff"; cp "$src/$pfx.demo.sh" "$dst/demo.sh"
  # copy auxiliary files the demo may reference
  for f in "$src"/*; do case "$(basename "$f")" in A.*|B.*|A2.*|PROPERTY.json|alt) ;; *) cp -r "$f" "$dst/" 2>/dev/null;; esac; done
  python3 - "$src/$pfx.meta.json" "$dst/meta.json" "$prop" "$var" "$clean_rc" "$tests_ok" "$patched_rc" <<'PY'
import json,sys
src,dst,prop,var,c,t,p=sys.argv[1:]
try: m=json.load(open(src))
except Exception: m={}
m.update({"property":prop,"variant":var,"confirmed_by_me":{"worktree":"scratch git worktree of /repo HEAD under /dev/shm (removed afterwards)","demo_on_clean_head_rc":int(c),"repo_test_suites_ok_with_patch":f"{t}/4 (cargo test --workspace --no-fail-fast --offline)","demo_with_patch_rc":int(p),"command":"tools/seed_import.sh"}})
json.dump(m,open(dst,"w"),indent=1)
PY
fi
