#!/usr/bin/env python3
"""Regenerates /verif/MANIFEST.json from the table below (single source of truth for the interface)."""
import json, os, subprocess
HERE = os.path.dirname(os.path.dirname(os.path.abspath(__file__)))

CHECKS = {
 "C01": ("exploration", "runtime differential monitor: real in-process builds of generated multi-file projects vs an independent reference model of the README semantics (bytes of every output/temp file + verdict)",
         "Each generated in-domain project is built by the real code and every byte of every output and temp file plus the verdict is compared with the reference model; held on the projects counted in the evidence, with the model's coverage tuples showing which state-machine combinations were reached.",
         "Trusted: reference model (harness/src/model.rs), domain DESIGN §4.3, /bin/sh + coreutils for the command vocabulary.", "DESIGN.md §5 C01"),
 "C02": ("exploration", "controlled-schedule runtime monitoring: gate-based controller (hooks) enumerates task run/send orders by DFS re-execution; oracle = bytes vs sequential reference model + observation log + at-most-once trace monitor; plus free-running stress with delays",
         "All labelled DAGs on <=3 files x requested subsets x 1..3 threads x all gate schedules (coordinator receive eager in quick, fully interleaved as well in thorough), 4-file DAGs and 5-8-file random DAGs sampled; every execution judged on bytes after Txtpp::run returned.",
         "Trusted: controller serialises at gate granularity (begin gate, end gate, receive); reference model; stale-generation planting makes stale/partial reads visible in bytes.", "DESIGN.md §4.5, §5 C02"),
 "C03": ("exploration", "controlled-schedule runtime monitoring: logical deadlock predicate + worker-panic events + at-most-once completion over the hook event trace + marker-file counters + output bytes, over all digraphs <=3 files x input aliases x threads x gate schedules",
         "Termination is decided logically (nothing in flight, everything received, done != total), never by wall clock; exactly-once by the event trace and by command-level markers.",
         "Trusted: hook placement (task spawn/begin/ready/end, poll, receive); bounded to the explored graph sizes.", "DESIGN.md §4.5, §5 C03"),
 "C05": ("exploration", "controlled-schedule runtime monitoring: verdict vs cycle reachability computed on the generated digraph, bystander bytes vs reference model, deadlock predicate; all digraphs with self loops <=3 files x requested sets x threads x gate schedules",
         "For every explored digraph and schedule: a requested file reaching a cycle must fail the run (and the run must return), acyclic projects must not fail, and every required file that cannot reach a cycle must be built exactly as the model says.",
         "Trusted: reachability computation in gen.rs, reference model; 4 files sampled.", "DESIGN.md §5 C05"),
 # id: (category, technique, text, note, design_ref)
 "C14": ("exploration", "runtime differential monitor: real TagState vs independent reference store, bounded-exhaustive + random op sequences + whole-file runs vs reference model, repeated on fresh hash seeds",
         "Every enumerated create/store/inject sequence and every generated tag file was executed on the real code and compared step by step with an independent reference; held on the executions counted in the evidence, exhaustive within the stated name/line bounds.",
         "Trusted: reference tag store and reference model (harness/src/model.rs). Bounds: names over {A,B} up to length 3 plus the empty name, <=3 tags, lines up to length 6.", "DESIGN.md §5 C14"),
 "C15": ("exploration", "runtime differential monitor: real Directive::detect_from/add_line vs independent recogniser, bounded-exhaustive over a token alphabet, plus whole-file sample vs reference model",
         "Every line of <=5 tokens and every (directive shape, next line) pair within the bound was pushed through the real recogniser and compared with a reference written from the statement; exhaustive within the bound, sampled end-to-end.",
         "Trusted: reference recogniser (harness/src/model.rs). Blanks = space/tab. Non-ASCII prefix with spaces continuation accepted under both readings.", "DESIGN.md §5 C15"),
}
PENDING = {}
ALL = ["C%02d" % i for i in range(1, 19)]

def main():
    hooks_commits = subprocess.run(["git", "-C", "/repo", "log", "--format=%H", "--grep=verification hooks", "--grep=verif hook", "-i"], capture_output=True, text=True).stdout.split()
    checks = []
    for pid in ALL:
        if pid not in CHECKS:
            continue
        cat, tech, text, note, ref = CHECKS[pid]
        checks.append({
            "property_id": pid,
            "quick_cmd": f"./check {pid} --tier quick",
            "thorough_cmd": f"./check {pid} --tier thorough",
            "evidence_file": f"/verif/evidence/{pid}.json",
            "replay_cmd_template": f"./check {pid} --replay {{path}}",
            "engine": "vh",
            "level_claimed": {"category": cat, "text": text, "design_ref": ref},
            "level_note": note,
            "technique": tech,
        })
    na = [{"property_id": p, "reason": PENDING.get(p, "check not built yet (work in progress; see DESIGN.md §5 for the planned monitor)")} for p in ALL if p not in CHECKS]
    m = {
        "version": 1,
        "setup_cmd": "./check setup",
        "hooks": {
            "guard": "cargo feature `verif` (off by default)",
            "enable": "harness depends on txtpp with features=[\"verif\"]; CLI built with `cargo build --features verif`",
            "baseline_off_cmd": "cd /repo && cargo test --workspace --no-fail-fast --offline",
            "source_commits": hooks_commits,
            "add_only": True,
        },
        "engines": [{"name": "vh", "path": "/verif/harness", "serves_properties": [c["property_id"] for c in checks],
                     "kind_free_text": "Rust harness linking txtpp (feature verif): schedule controller + event-trace monitors, reference-model differential, snapshot/syscall monitors, fault and crash injection"}],
        "checks": checks,
        "not_applicable": na,
        "notes": "Runtime monitoring family. Every check rebuilds harness and hooked CLI from /repo's working tree (VERIF_REPO overrides). Exit 0 held / 1 VIOLATION / 2 harness error or inconclusive. Known findings: /verif/known_findings.json.",
    }
    json.dump(m, open(os.path.join(HERE, "MANIFEST.json"), "w"), indent=1)
    print("MANIFEST.json:", len(checks), "checks,", len(na), "not claimed")

if __name__ == "__main__":
    main()
