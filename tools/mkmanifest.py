#!/usr/bin/env python3
"""Regenerates /verif/MANIFEST.json from the table below (single source of truth for the interface)."""
import json, os, subprocess
HERE = os.path.dirname(os.path.dirname(os.path.abspath(__file__)))

CHECKS = {
 "C04": ("fault_enumeration", "fault enumeration under controlled schedules (in-process: fault kind x graph position x gate schedules, verdict monitor + bytes-on-success) and real OS fault injection through the CLI (/dev/full symlink -> ENOSPC at flush, RLIMIT_FSIZE -> EFBIG, EISDIR, signal-killed command) with exit-status monitor",
         "Each fault is placed in every vertex of every DAG on <=3 files, requested directly / only through dependencies / not at all, and executed under every gate schedule; OS-level faults are real (no injection hook) and exercised with several thread counts and seeded hook delays.",
         "Faults the OS cannot produce here (EIO, permissions as root) are not covered; quick samples 1/5 of the 3-file product.", "DESIGN.md §4.7, §5 C04"),
 "C11": ("exploration", "observed-set monitor: which outputs appear (build), which planted outputs disappear (clean), which per-source marker commands run (build, verify), compared with the set computed by an independent reading of the input rule; trees with all name shapes x dotted stems x look-alikes, input aliases, recursion, base != cwd",
         "The processed set is observed from effects of real runs, never from internal state; expected set computed by the harness's own rule; output names/bytes cross-checked with the reference model.",
         "D10 (one source per output); symbolic links only in the listed shapes (link to a source in another directory, link to a directory); a dedicated scenario uses file names that are not valid UTF-8. Marker commands placed after dependency directives.", "DESIGN.md §5 C11"),
 "C17": ("exploration", "self-observing commands (pwd -P, TXTPP_FILE, recorder shell printing argv) captured in outputs + strace execve/chdir/env monitor on CLI runs; depth 0..3 x base/cwd combinations x library/CLI x shell override x multi-line commands x exit codes; guard checks",
         "The contract is observed where it takes effect: by the command itself and at the execve syscall.",
         "TXTPP_FILE accepted as absolute or base-/cwd-relative designation of the source (README vs code); not judged below directory names that are not valid UTF-8 (the variable is a lossy rendering there), where only the working directory and success are judged.", "DESIGN.md §5 C17"),
 "C18": ("exploration", "in-process fuzzing with panic hook (all threads), logical deadlock predicate from the scheduler hooks, process-death witness file; CLI option-value runs with exit-status monitor; watchdog expiry = inconclusive",
         "Grammar-aware hostile and byte-mutated sources, include targets and leftovers x 4 modes x 0..16 threads; any panic of any thread, logical deadlock, abort or exit status outside {0,1,2} is a violation.",
         "Commands of fuzzed sources neutralised (/bin/echo as shell), plus a fixed block of real pipe-heavy commands (stderr/stdout beyond a pipe buffer, stdin readers, NUL / non-UTF-8 output) under the default shell; temp targets kept inside the scratch tree. Hang verdicts: logical deadlock and rescan predicates; shutdown-phase hangs as bounded progress (10 s, DESIGN §11); any other watchdog expiry is inconclusive.", "DESIGN.md §5 C18"),
 "C06": ("exploration", "snapshot monitor (bytes, inode, sentinel mtime) around in-process verify runs on built projects: every single-point tamper class of every output must be rejected and left untouched; option mismatch / source edits judged against the real build run right after; strace write-set monitor on a CLI sample",
         "verify is executed on the real code for each tampering of each output (including dependencies and outputs of exactly 0 / 8192 / 16384 bytes) and its verdict compared with what an actual build does to the same tree; read-only-ness observed on inode/mtime and at the syscall level.",
         "Trusted: determinism of commands (the build right after defines 'up to date'); strace parser (harness/src/sys.rs). A dedicated scenario verifies through output paths that are symbolic links to regular files.", "DESIGN.md §5 C06"),
 "C07": ("exploration", "whole-tree snapshot equality S0 == clean(build(S0)) over generated projects and histories, marker-log monitor for executed commands, verdict monitor on erroneous sources, strace execve/creation monitor on a CLI sample",
         "Every history is executed on the real code; the full tree (file set, bytes, inode/mtime of non-generated files, directories) is compared with the pre-build snapshot; command execution during clean is observed through marker files and execve.",
         "Inputs are dependency-closed (directory, recursive). Generated paths from the reference model / a superset scan. A dedicated scenario uses temp targets that are dangling symbolic links (build writes through them); CLI clean is also run with top-level options in front of the subcommand.", "DESIGN.md §5 C07"),
 "C08": ("fault_enumeration", "pre-state enumeration + crash injection: each generated path planted with each leftover class, build/needed must reproduce the reference tree; CLI builds aborted at every hook event (TXTPP_VERIF=abort-at=k) and SIGKILLed at random offsets, then rebuilt and compared with the reference tree",
         "Leftover classes and crash points are enumerated against the real code: 11 pre-state classes per generated path, every k-th hook/IO event of a full build (every event in thorough), random SIGKILLs; oracle = byte equality with the tree built from scratch.",
         "Crash = abort()/SIGKILL of the whole process group on tmpfs; no power-loss model (page cache is not dropped).", "DESIGN.md §5 C08"),
 "C09": ("exploration", "history monitor: random histories of edits/tampering/deletions/builds, then the same pre-state tree built with --needed and with a plain build at the same path; byte equality of every generated file, verdict equality, inode + sentinel-mtime monitor for files that were already correct; strace write-open monitor for -N on a CLI sample",
         "Each judged step runs the real code twice on identical pre-states and compares; rewrite detection does not depend on timestamp granularity (sentinel mtimes + inode).",
         "Trusted: snapshot utility; commands deterministic.", "DESIGN.md §5 C09"),
 "C10": ("exploration", "snapshot-diff monitor (bytes, inode, mtime, directories) over all four modes x ok/failing projects x input selections x recursion with decoy files and pre-planted outputs of unprocessed sources; allowed set computed independently; strace write-set monitor on a CLI sample",
         "Every run's diff must be a subset of the outputs/temp targets of the processed sources; decoys at near-miss names make a wrong path visible; syscall monitor catches write-then-restore.",
         "Allowed set is a superset computed by scanning sources for temp/include/after lines. Dedicated scenarios: non-UTF-8 file names with decoys at the lossy (U+FFFD) spellings of the outputs; output paths that are symbolic links to regular files (verify and clean only).", "DESIGN.md §5 C10"),
 "C12": ("exploration", "byte-scan monitor over outputs and temp files of generated and targeted mixed-line-ending projects built by the real code",
         "Every output/temp of every successful build is scanned for a byte that breaks the single line ending of its source's first line; inputs mix LF/CRLF in every channel.",
         "Domain D1 (CR only before LF). Temp ownership from the reference model.", "DESIGN.md §5 C12"),
 "C13": ("exploration", "differential monitor: the same source tree built with the trailing-newline option on and off at the same path; relation on == off or on == off + one line ending (exactly that for text-ending sources); temp files identical; CLI -n mapping checked",
         "End-of-file states are enumerated by a dedicated generator (each directive kind x output newline state x tag x tail line) and by the general generator; both builds are real executions.",
         "Judged for sources whose directive results do not depend on the option (DESIGN §5 C13 domain note).", "DESIGN.md §5 C13"),
 "C16": ("exploration", "metamorphic runtime monitors: identity on directive-free hostile text; write-escape round trip (also with a live stored tag whose name occurs in the text); mixed sources vs reference model",
         "Texts are drawn from an alphabet of directive and tag look-alikes; each is built by the real code and compared byte for byte with the text itself.",
         "Reference recogniser decides which lines are directive-free; blanks = space/tab. Carriage returns inside line content are generated only where they cannot be read as part of a line ending (inside a line; before CRLF in a CRLF file; in texts without LF).", "DESIGN.md §5 C16"),
 "C01": ("exploration", "runtime differential monitor: real in-process builds of generated multi-file projects vs an independent reference model of the README semantics (bytes of every output/temp file + verdict)",
         "Each generated in-domain project is built by the real code and every byte of every output and temp file plus the verdict is compared with the reference model; held on the projects counted in the evidence, with the model's coverage tuples showing which state-machine combinations were reached.",
         "Trusted: reference model (harness/src/model.rs), domain DESIGN §4.3, /bin/sh + coreutils for the command vocabulary.", "DESIGN.md §5 C01"),
 "C02": ("exploration", "controlled-schedule runtime monitoring: gate-based controller (hooks) enumerates task run/send orders by DFS re-execution; oracle = bytes vs sequential reference model + observation log + at-most-once trace monitor; plus free-running stress with delays",
         "All labelled DAGs on <=3 files x requested subsets x 1..3 threads x all gate schedules (coordinator receive eager in quick, fully interleaved as well in thorough), 4-file DAGs and 5-8-file random DAGs sampled; every execution judged on bytes after Txtpp::run returned.",
         "Trusted: controller serialises at gate granularity (begin gate, end gate, receive); reference model; stale-generation planting makes stale/partial reads visible in bytes.", "DESIGN.md §4.5, §5 C02"),
 "C03": ("exploration", "controlled-schedule runtime monitoring: logical deadlock predicate + worker-panic events + at-most-once completion over the hook event trace + marker-file counters + output bytes, over all digraphs <=3 files x input aliases x threads x gate schedules",
         "Termination is decided logically (nothing in flight, everything received, done != total), never by wall clock; exactly-once by the event trace and by command-level markers.",
         "Trusted: hook placement (task spawn/begin/ready/end, poll, receive); bounded to the explored graph sizes. Hangs outside the coordinator loop (in Drop, after the last poll) are stated as bounded progress: 10 s without any hook event in a state where no thread can make progress (DESIGN §11); endless rescanning = one directory queued more than 64 times.", "DESIGN.md §4.5, §5 C03"),
 "C05": ("exploration", "controlled-schedule runtime monitoring: verdict vs cycle reachability computed on the generated digraph, bystander bytes vs reference model, deadlock predicate; all digraphs with self loops <=3 files x requested sets x threads x gate schedules",
         "For every explored digraph and schedule: a requested file reaching a cycle must fail the run (and the run must return), acyclic projects must not fail, and every required file that cannot reach a cycle must be built exactly as the model says.",
         "Trusted: reachability computation in gen.rs, reference model; 4 files sampled.", "DESIGN.md §5 C05"),
 # id: (category, technique, text, note, design_ref)
 "C14": ("exploration", "runtime differential monitor: real TagState vs independent reference store, bounded-exhaustive + random op sequences + whole-file runs vs reference model, repeated on fresh hash seeds",
         "Every enumerated create/store/inject sequence and every generated tag file was executed on the real code and compared step by step with an independent reference; held on the executions counted in the evidence, exhaustive within the stated name/line bounds.",
         "Trusted: reference tag store and reference model (harness/src/model.rs). Bounds: names over {A,B} up to length 3 plus the empty name, <=3 tags, lines up to length 6.", "DESIGN.md §5 C14"),
 "C15": ("exploration", "runtime differential monitor: real Directive::detect_from/add_line vs independent recogniser, bounded-exhaustive over a token alphabet, plus whole-file sample vs reference model",
         "Every line of <=5 tokens and every (directive shape, next line) pair within the bound was pushed through the real recogniser and compared with a reference written from the statement; exhaustive within the bound, sampled end-to-end.",
         "Trusted: reference recogniser (harness/src/model.rs). Blanks = space/tab. Non-ASCII prefix with spaces continuation accepted under both readings.", "DESIGN.md §5 C15"),
}
PENDING = {}
ALL = ["C%02d" % i for i in range(1, 19)]

def main():
    hooks_commits = subprocess.run(["git", "-C", "/repo", "log", "--format=%H", "--grep=verification hooks", "--grep=verif hook", "-i"], capture_output=True, text=True).stdout.split()
    checks = []
    for pid in ALL:
        if pid not in CHECKS:
            continue
        cat, tech, text, note, ref = CHECKS[pid]
        checks.append({
            "property_id": pid,
            "quick_cmd": f"./check {pid} --tier quick",
            "thorough_cmd": f"./check {pid} --tier thorough",
            "evidence_file": f"/verif/evidence/{pid}.json",
            "replay_cmd_template": f"./check {pid} --replay {{path}}",
            "engine": "vh",
            "level_claimed": {"category": cat, "text": text, "design_ref": ref},
            "level_note": note,
            "technique": tech,
        })
    na = [{"property_id": p, "reason": PENDING.get(p, "check not built yet (work in progress; see DESIGN.md §5 for the planned monitor)")} for p in ALL if p not in CHECKS]
    m = {
        "version": 1,
        "setup_cmd": "./check setup",
        "hooks": {
            "guard": "cargo feature `verif` (off by default)",
            "enable": "harness depends on txtpp with features=[\"verif\"]; CLI built with `cargo build --features verif`",
            "baseline_off_cmd": "cd /repo && cargo test --workspace --no-fail-fast --offline",
            "source_commits": hooks_commits,
            "add_only": True,
        },
        "engines": [{"name": "vh", "path": "/verif/harness", "serves_properties": [c["property_id"] for c in checks],
                     "kind_free_text": "Rust harness linking txtpp (feature verif): schedule controller + event-trace monitors, reference-model differential, snapshot/syscall monitors, fault and crash injection"}],
        "checks": checks,
        "not_applicable": na,
        "notes": "Runtime monitoring family. Five defects found by the checks were repaired by fix: commits (known_findings.json, DESIGN §8); no open findings. Supplementary ThreadSanitizer stage: ./check tsan (also at the end of C02 thorough). Every check rebuilds harness and hooked CLI from /repo's working tree (VERIF_REPO overrides). Exit 0 held / 1 VIOLATION / 2 harness error or inconclusive. Known findings: /verif/known_findings.json.",
    }
    json.dump(m, open(os.path.join(HERE, "MANIFEST.json"), "w"), indent=1)
    print("MANIFEST.json:", len(checks), "checks,", len(na), "not claimed")

if __name__ == "__main__":
    main()
