#!/usr/bin/env python3
"""Generates /verif/mutants/<id>.patch from search/replace edits against /repo HEAD (scratch copy under /dev/shm)."""
import os, subprocess, shutil, sys, json
REPO="/repo"
OUT="/verif/mutants"
M = {}
def m(id, file, old, new, prop, note):
    M.setdefault(id, {"edits": [], "props": prop, "note": note})["edits"].append((file, old, new))

# ---- scheduling
m("m21","src/core/execute/mod.rs","""                                // the dependencies are already done, shedule the file again
                                self.execute_file(input, false)?;""","""                                // the dependencies are already done
                                let _ = input;""",["C02","C03"],"HasDeps with all dependencies already finished: re-schedule forgotten (0.1.1 bug)")
m("m100","src/core/util/dependency.rs","""            if self.finished.contains(dependency) {
                continue;
            }""","""            if self.finished.contains(dependency) {
                return false;
            }""",["C02"],"add_dependency reports nothing-to-wait-for when any dependency is finished")
m("m106","src/core/execute/mod.rs","""                                // the dependencies are already done, shedule the file again
                                self.execute_file(input, false)?;""","""                                // the dependencies are already done, shedule the file again
                                for file in dep_mgr.notify_finish(&input) {
                                    self.execute_file(file, false)?;
                                }
                                self.execute_file(input, false)?;""",["C02"],"depender's dependers released when it is merely re-scheduled")
m("m18","src/core/execute/mod.rs","""            if !self.files.insert(file.clone()) {
                return Ok(());
            }
        }

        let _ = self.progress.add_total(1);""","""            if !self.files.insert(file.clone()) {
                return Ok(());
            }
            let _ = self.progress.add_total(1);
        }
""",["C03"],"add_total not bumped for second passes (hang)")
m("m_leftover","src/core/execute/mod.rs","""        if !remaining.is_empty() {
            return Err(Report::new(TxtppError)""","""        if remaining.len() > 1 {
            return Err(Report::new(TxtppError)""",["C05"],"leftover check misses a single remaining depender (self-loop / one waiting file reports success)")
m("m_dedup","src/core/execute/mod.rs","""            if !self.files.insert(file.clone()) {
                return Ok(());
            }""","""            if !self.files.insert(file.clone()) && self.config.inputs.len() < 2 {
                return Ok(());
            }""",["C03"],"first-pass de-duplication skipped when several inputs are given (file processed once per alias)")
m("m_count2","src/core/util/dependency.rs","""            if *count <= 1 {""","""            if *count <= 2 {""",["C02"],"depender released when two dependencies are still outstanding")
# ---- semantics
m("m02","src/core/execute/pp/mod.rs","""            .map(|s| format!("{whitespaces}{line}", line = s.as_ref()))""","""            .map(|s| if s.as_ref().is_empty() { String::new() } else { format!("{whitespaces}{line}", line = s.as_ref()) })""",["C01"],"blank output lines not indented")
m("m53","src/core/util/tag_state.rs","""            .filter_map(|(k, v)| output.find(k).map(|i| (i, k, v)))""","""            .filter_map(|(k, v)| output.rfind(k).map(|i| (i, k, v)))""",["C14"],"tag substituted at its last occurrence")
m("m54","src/core/execute/pp/directive/directive_from.rs","""        let (line, prefix) = match line.find(TXTPP_HASH) {""","""        let (line, prefix) = match line.rfind(TXTPP_HASH) {""",["C15"],"rfind instead of find for TXTPP#")
m("m55","src/core/execute/pp/directive/directive_from.rs","""match directive_name.split_once(' ') {""","""match directive_name.split_once(char::is_whitespace) {""",["C15"],"directive name split at any whitespace")
m("m93","src/core/execute/pp/directive/directive_add_line.rs","""line.starts_with(&" ".repeat(self.prefix.len()))""","""line.starts_with(&" ".repeat(self.prefix.chars().count()))""",["C15","C18"],"spaces-form continuation uses char count, slices by byte length")
m("m57","src/core/execute/pp/mod.rs","""                    let line = if self.pp_mode.is_execute() {
                        self.tag_state.inject_tags(&line, self.context.line_ending)""","""                    let line = if self.pp_mode.is_execute() {
                        self.tag_state.inject_tags(line.trim_end(), self.context.line_ending)""",["C16","C01"],"ordinary text lines trim_end-ed")
m("m45","src/core/execute/pp/mod.rs","""        let contents = self.format_directive_output("", args.iter().skip(1), false);""","""        let contents = args.iter().skip(1).cloned().collect::<Vec<_>>().join("\\n");""",["C12","C01"],"temp body joined with \\n instead of the file's line ending")
m("m07","src/core/execute/pp/mod.rs","""                            if d.directive_type.supports_multi_line() && d.prefix.is_empty() {""","""                            if false && d.prefix.is_empty() {""",["C01"],"prefix-less multi-line check dropped")
m("m95","src/core/execute/pp/mod.rs","""            DirectiveType::Temp => {
                self.execute_directive_temp(d.args, false)?;
""","""            DirectiveType::Temp => {
                if !matches!(self.pp_mode, PpMode::Execute) {
                    self.execute_directive_temp(d.args, false)?;
                }
""",["C01","C08"],"temp directives skipped in the second pass")

# ---- C04 faults
m("m22","src/fs/io_context.rs","""            CtxOut::Build { path, out } => out
                .flush()
                .change_context_lazy(|| make_error!(self, PpErrorKind::WriteFile))
                .attach_printable_lazy(|| format!("could not write to `{}`", path.display())),""","""            CtxOut::Build { path, out } => {
                let _ = (out.flush(), path);
                Ok(())
            }""",["C04"],"flush() result ignored in done()")
m("m28","src/fs/io_context.rs","""        fs::write(&export_file, contents)
            .change_context_lazy(|| make_error!(self, PpErrorKind::WriteFile))
            .attach_printable_lazy(|| format!("could not write temp file: `{export_file}`"))""","""        let _ = fs::write(&export_file, contents);
        Ok(())""",["C04"],"temp-file fs::write error ignored")
m("m27","src/main.rs","""        Err(_) => ExitCode::FAILURE,
    }
}""","""        Err(_) => ExitCode::SUCCESS,
    }
}""",["C04"],"main returns SUCCESS on Err")
m("m94","src/core/execute/pp/mod.rs","""                let output = std::fs::read_to_string(&include_file)
                    .change_context_lazy(|| self.context.make_error(PpErrorKind::Directive))
                    .attach_printable_lazy(|| {
                        format!("could not read include file: `{include_file}`")
                    })?;""","""                let output = std::fs::read_to_string(&include_file).unwrap();""",["C18","C04","C03"],"include read unwrap()s: worker panic on unreadable include")
m("m_errcont","src/core/execute/mod.rs","""                    let preprocess_result = result.map_err(|e| {
                        self.progress.add_done_quiet(1);
                        e.change_context(TxtppError)
                    })?;""","""                    let preprocess_result = match result {
                        Ok(r) => r,
                        Err(e) => {
                            if self.progress.done_count * 2 > self.progress.total_count {
                                return Err(e.change_context(TxtppError));
                            }
                            continue;
                        }
                    };""",["C04"],"coordinator drops an Err result that arrives while most tasks are still outstanding")
m("m_status","src/fs/shell.rs","""        if result.status.success() {""","""        if result.status.code().unwrap_or_default() == 0 {""",["C04","C17"],"signal-killed command treated as success")
# ---- verify / clean / needed / write set
m("m25","src/fs/io_context.rs","""            CtxOut::Verify { path, rem, .. } => {
                if *rem != 0 {
                    return Err(make_verify_report!(self, path));
                }
                Ok(())
            }""","""            CtxOut::Verify { path, rem, .. } => {
                let _ = (path, rem);
                Ok(())
            }""",["C06"],"verify: leftover-bytes check at done() dropped")
m("m63","src/fs/io_context.rs","""                if buf != output.as_bytes() {
                    let string = String::from_utf8_lossy(&buf);
                    log::debug!("content different, actual: {string:?}");
                    return Err(make_verify_report!(self, path));""","""                if buf != output.as_bytes() {
                    let string = String::from_utf8_lossy(&buf);
                    log::debug!("content different, actual: {string:?}");
                    let _ = fs::write(&path, output);
                    return Err(make_verify_report!(self, path));""",["C06","C10"],"verify writes fresh bytes over a mismatching output")
m("m33","src/core/execute/pp/mod.rs""",""".ignore_err_if_cleaning(&self.mode, || IterDirectiveResult::None("".to_string()))?""",""".map_err(|e| e)?""",["C07"],"clean: directive errors no longer ignored")
m("m97","src/fs/io_context.rs","""        if let CtxOut::Clean { .. } = self.out {
            if let Ok(export_file) = self.work_dir.try_resolve(&p, false) {""","""        if let CtxOut::Clean { .. } = self.out {
            if p.components().count() > 1 {
                return Ok(());
            }
            if let Ok(export_file) = self.work_dir.try_resolve(&p, false) {""",["C07"],"clean: temp targets with a directory component not removed")
m("m35","src/fs/io_context.rs","""            if current_content == contents.as_bytes() {""","""            if current_content.len() == contents.len() {""",["C08","C09"],"temp skip-if-same compares lengths only")
m("m83","src/fs/io_context.rs","""                    if current_content == out.as_bytes() {""","""                    if current_content.trim_ascii_end() == out.trim_end().as_bytes() {""",["C09"],"--needed compares after trim_end")
m("m38","src/main.rs","""                config.mode = if self.needed {
                    Mode::InMemoryBuild
                } else {
                    Mode::Build
                };""","""                config.mode = if self.needed && false {
                    Mode::InMemoryBuild
                } else {
                    Mode::Build
                };""",["C09"],"-N mapped to plain Build")
m("m39","src/core/execute/scan_dir.rs","""        } else if path.is_dir() && recursive {""","""        } else if path.is_dir() {""",["C10","C11"],"directory scan recurses regardless of the flag")
m("m88","src/main.rs","""        config.trailing_newline = !self.no_trailing_newline;""","""        config.trailing_newline = self.no_trailing_newline;""",["C13"],"CLI -n flag inverted")
m("m41","src/fs/path/mod.rs","""                p.set_extension(""); // restore p
                let mut ext2 = OsString::from(TXTPP_EXT);
                ext2.push(".");
                ext2.push(ext);
                p.set_extension(ext2);
                if p.is_file() {
                    Some(p)
                } else {
                    None
                }""","""                let _ = OsString::new();
                None""",["C11"],"output name -> source lookup tries only foo.ext.txtpp")
m("m_join_nl","src/core/execute/pp/mod.rs","""                let command = d.args.join(" ");""","""                let command = d.args.join("\n");""",["C17"],"run args joined with newline")

m("m103","src/core/execute/mod.rs","""        let _ = self.progress.add_total(1);
        let _ = self
            .progress
            .print_status(verbs::SCANNING""","""        let _ = self
            .progress
            .print_status(verbs::SCANNING""",["C03","C04","C11"],"add_total not bumped for scanned directories (re-based after the F5 fix, which moved the accounting into execute_directory)")
m("m77","src/core/execute/mod.rs","""                Err(TryRecvError::Empty) => {
                    if self.progress.is_done() {
                        break;
                    }""","""                Err(TryRecvError::Empty) => {
                    if self.progress.is_done() || start_time.elapsed().as_millis() > 700 {
                        break;
                    }""",["C05","C02"],"coordinator stops waiting 0.7 s after start (symptom: false circular-dependency failure)")
m("m_early","src/core/execute/mod.rs","""                Err(TryRecvError::Empty) => {
                    if self.progress.is_done() {
                        break;
                    }""","""                Err(TryRecvError::Empty) => {
                    if self.progress.is_done() || self.progress.done_count > 0 {
                        break;
                    }""",["C03","C02","C04"],"coordinator leaves its loop on the first empty poll after any result was received")

def main():
    only = sys.argv[1:]
    os.makedirs(OUT, exist_ok=True)
    scratch="/dev/shm/mkmut"
    shutil.rmtree(scratch, ignore_errors=True)
    subprocess.run(["git","-C",REPO,"worktree","add","-q","--detach",scratch,"HEAD"],check=True)
    meta={}
    try:
        for id,d in M.items():
            if only and id not in only: continue
            for f,old,new in d["edits"]:
                p=os.path.join(scratch,f)
                s=open(p).read()
                if s.count(old)!=1:
                    print("!!",id,"anchor count",s.count(old),"in",f); continue
                open(p,"w").write(s.replace(old,new))
            diff=subprocess.run(["git","-C",scratch,"diff"],capture_output=True,text=True).stdout
            open(os.path.join(OUT,id+".patch"),"w").write(diff)
            subprocess.run(["git","-C",scratch,"checkout","-q","--","."],check=True)
            meta[id]={"properties":d["props"],"note":d["note"]}
            print(id,len(diff.splitlines()),"lines")
    finally:
        subprocess.run(["git","-C",REPO,"worktree","remove","--force",scratch])
    mp=os.path.join(OUT,"mutants.json")
    allm=json.load(open(mp)) if os.path.exists(mp) else {}
    allm.update(meta)
    json.dump(allm,open(mp,"w"),indent=1,sort_keys=True)
main()
