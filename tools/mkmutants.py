#!/usr/bin/env python3
"""Generates /verif/mutants/<id>.patch from search/replace edits against /repo HEAD (scratch copy under /dev/shm)."""
import os, subprocess, shutil, sys, json
REPO="/repo"
OUT="/verif/mutants"
M = {}
def m(id, file, old, new, prop, note):
    M.setdefault(id, {"edits": [], "props": prop, "note": note})["edits"].append((file, old, new))

# ---- scheduling
m("m21","src/core/execute/mod.rs","""                                // the dependencies are already done, shedule the file again
                                self.execute_file(input, false)?;""","""                                // the dependencies are already done
                                let _ = input;""",["C02","C03"],"HasDeps with all dependencies already finished: re-schedule forgotten (0.1.1 bug)")
m("m100","src/core/util/dependency.rs","""            if self.finished.contains(dependency) {
                continue;
            }""","""            if self.finished.contains(dependency) {
                return false;
            }""",["C02"],"add_dependency reports nothing-to-wait-for when any dependency is finished")
m("m106","src/core/execute/mod.rs","""                                // the dependencies are already done, shedule the file again
                                self.execute_file(input, false)?;""","""                                // the dependencies are already done, shedule the file again
                                for file in dep_mgr.notify_finish(&input) {
                                    self.execute_file(file, false)?;
                                }
                                self.execute_file(input, false)?;""",["C02"],"depender's dependers released when it is merely re-scheduled")
m("m18","src/core/execute/mod.rs","""            if !self.files.insert(file.clone()) {
                return Ok(());
            }
        }

        let _ = self.progress.add_total(1);""","""            if !self.files.insert(file.clone()) {
                return Ok(());
            }
            let _ = self.progress.add_total(1);
        }
""",["C03"],"add_total not bumped for second passes (hang)")
m("m_leftover","src/core/execute/mod.rs","""        if !remaining.is_empty() {
            return Err(Report::new(TxtppError)""","""        if remaining.len() > 1 {
            return Err(Report::new(TxtppError)""",["C05"],"leftover check misses a single remaining depender (self-loop / one waiting file reports success)")
m("m_dedup","src/core/execute/mod.rs","""            if !self.files.insert(file.clone()) {
                return Ok(());
            }""","""            if !self.files.insert(file.clone()) && self.config.inputs.len() < 2 {
                return Ok(());
            }""",["C03"],"first-pass de-duplication skipped when several inputs are given (file processed once per alias)")
m("m_count2","src/core/util/dependency.rs","""            if *count <= 1 {""","""            if *count <= 2 {""",["C02"],"depender released when two dependencies are still outstanding")
# ---- semantics
m("m02","src/core/execute/pp/mod.rs","""            .map(|s| format!("{whitespaces}{line}", line = s.as_ref()))""","""            .map(|s| if s.as_ref().is_empty() { String::new() } else { format!("{whitespaces}{line}", line = s.as_ref()) })""",["C01"],"blank output lines not indented")
m("m53","src/core/util/tag_state.rs","""            .filter_map(|(k, v)| output.find(k).map(|i| (i, k, v)))""","""            .filter_map(|(k, v)| output.rfind(k).map(|i| (i, k, v)))""",["C14"],"tag substituted at its last occurrence")
m("m54","src/core/execute/pp/directive/directive_from.rs","""        let (line, prefix) = match line.find(TXTPP_HASH) {""","""        let (line, prefix) = match line.rfind(TXTPP_HASH) {""",["C15"],"rfind instead of find for TXTPP#")
m("m55","src/core/execute/pp/directive/directive_from.rs","""match directive_name.split_once(' ') {""","""match directive_name.split_once(char::is_whitespace) {""",["C15"],"directive name split at any whitespace")
m("m93","src/core/execute/pp/directive/directive_add_line.rs","""line.starts_with(&" ".repeat(self.prefix.len()))""","""line.starts_with(&" ".repeat(self.prefix.chars().count()))""",["C15","C18"],"spaces-form continuation uses char count, slices by byte length")
m("m57","src/core/execute/pp/mod.rs","""                    let line = if self.pp_mode.is_execute() {
                        self.tag_state.inject_tags(&line, self.context.line_ending)""","""                    let line = if self.pp_mode.is_execute() {
                        self.tag_state.inject_tags(line.trim_end(), self.context.line_ending)""",["C16","C01"],"ordinary text lines trim_end-ed")
m("m45","src/core/execute/pp/mod.rs","""        let contents = self.format_directive_output("", args.iter().skip(1), false);""","""        let contents = args.iter().skip(1).cloned().collect::<Vec<_>>().join("\\n");""",["C12","C01"],"temp body joined with \\n instead of the file's line ending")
m("m07","src/core/execute/pp/mod.rs","""                            if d.directive_type.supports_multi_line() && d.prefix.is_empty() {""","""                            if false && d.prefix.is_empty() {""",["C01"],"prefix-less multi-line check dropped")
m("m95","src/core/execute/pp/mod.rs","""            DirectiveType::Temp => {
                self.execute_directive_temp(d.args, false)?;
""","""            DirectiveType::Temp => {
                if !matches!(self.pp_mode, PpMode::Execute) {
                    self.execute_directive_temp(d.args, false)?;
                }
""",["C01","C08"],"temp directives skipped in the second pass")

def main():
    only = sys.argv[1:]
    os.makedirs(OUT, exist_ok=True)
    scratch="/dev/shm/mkmut"
    shutil.rmtree(scratch, ignore_errors=True)
    subprocess.run(["git","-C",REPO,"worktree","add","-q","--detach",scratch,"HEAD"],check=True)
    meta={}
    try:
        for id,d in M.items():
            if only and id not in only: continue
            for f,old,new in d["edits"]:
                p=os.path.join(scratch,f)
                s=open(p).read()
                if s.count(old)!=1:
                    print("!!",id,"anchor count",s.count(old),"in",f); continue
                open(p,"w").write(s.replace(old,new))
            diff=subprocess.run(["git","-C",scratch,"diff"],capture_output=True,text=True).stdout
            open(os.path.join(OUT,id+".patch"),"w").write(diff)
            subprocess.run(["git","-C",scratch,"checkout","-q","--","."],check=True)
            meta[id]={"properties":d["props"],"note":d["note"]}
            print(id,len(diff.splitlines()),"lines")
    finally:
        subprocess.run(["git","-C",REPO,"worktree","remove","--force",scratch])
    mp=os.path.join(OUT,"mutants.json")
    allm=json.load(open(mp)) if os.path.exists(mp) else {}
    allm.update(meta)
    json.dump(allm,open(mp,"w"),indent=1,sort_keys=True)
main()
