#!/bin/bash
# usage: tools/seeded_run.sh <seeded-dir-name>...   runs each seeded patch against its property's quick check
for d in "$@"; do
  prop="${d%%-*}"
  "${VERIF_HOME:-/verif}/tools/mutant.sh" "${VERIF_HOME:-/verif}/seeded/$d/patch.diff" "$prop" 2>&1 | sed "s/^patch /$d /"
done
