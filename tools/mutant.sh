#!/bin/bash
# usage: tools/mutant.sh <patch-file> <check-id>... [-- extra args]
# Applies the patch to a disposable copy of /repo under /dev/shm, points the checks at it via
# VERIF_REPO (separate target dir), prints one line per check: <patch> <id> CAUGHT|MISSED|ERROR.
# Never touches /repo. Env: MUT_TIER (quick), MUT_KEEP=1 keeps the copy.
set -u
V="${VERIF_HOME:-/verif}"   # a snapshot copy of /verif may be used, so that the sources can be edited meanwhile
patch="$(readlink -f "$1")"; shift
name="$(basename "$patch" | sed 's/\.patch$//; s/\.diff$//')"
SLOT="${MUT_SLOT:-0}"
copy="/dev/shm/mutrepo.$SLOT"
target="/dev/shm/muttarget.$SLOT"
rm -rf "$copy"
git -C /repo worktree prune
git -C /repo worktree add -q --detach "$copy" HEAD || exit 2
cleanup() { if [ -z "${MUT_KEEP:-}" ]; then git -C /repo worktree remove --force "$copy" 2>/dev/null; rm -rf "$copy"; fi; }
trap cleanup EXIT
if ! git -C "$copy" apply "$patch"; then echo "$name - ERROR patch does not apply"; exit 2; fi
for id in "$@"; do
    out="/dev/shm/mutout.$SLOT.$name.$id.log"
    VERIF_REPO="$copy" VERIF_TARGET="$target" VERIF_DIR="/dev/shm/mutverif.$SLOT" \
      bash -c "mkdir -p /dev/shm/mutverif.$SLOT && cp $V/known_findings.json /dev/shm/mutverif.$SLOT/ && $V/check $id --tier ${MUT_TIER:-quick}" > "$out" 2>&1
    code=$?
    if grep -q "^VIOLATION property=$id" "$out"; then
        echo "$name $id CAUGHT ($(grep -c '^VIOLATION' "$out") signatures: $(grep -A1 '^VIOLATION' "$out" | grep '^  \[' | sed 's/^  \[\([^]]*\)\].*/\1/' | sort -u | tr '\n' ' '))"
    elif [ $code -eq 0 ]; then
        echo "$name $id MISSED"
    else
        echo "$name $id ERROR exit=$code ($(tail -3 "$out" | tr '\n' ' '))"
    fi
done
rm -rf "/dev/shm/mutverif.$SLOT"
