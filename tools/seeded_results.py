#!/usr/bin/env python3
"""Rebuilds seeded/RESULTS.md and the `checked_against_verif` part of every meta.json from seeded/run_*.log."""
import json, os, re, glob
S = '/verif/seeded'
runs = {}   # id -> list of (logname, check, result, sigs)
for log in sorted(glob.glob(S + '/run_*.log')):
    for l in open(log):
        m = re.match(r'(\S+) (C\d+) (CAUGHT|MISSED|ERROR)(.*)', l)
        if m:
            runs.setdefault(m.group(1), []).append((os.path.basename(log), m.group(2), m.group(3), m.group(4).strip()))
rows = []
for d in sorted(os.listdir(S)):
    p = f'{S}/{d}/meta.json'
    if not os.path.exists(p):
        continue
    m = json.load(open(p))
    rs = runs.get(d, [])
    m['checked_against_verif'] = [{'log': a, 'check': f'./check {b} --tier quick (tools/mutant.sh: scratch worktree + patch, VERIF_REPO)', 'result': c, 'signatures': e} for (a, b, c, e) in rs]
    json.dump(m, open(p, 'w'), indent=1)
    own = d.split('-')[0]
    own_res = [r for r in rs if r[1] == own]
    last_own = own_res[-1][2] if own_res else 'not run'
    first_own = own_res[0][2] if own_res else ''
    others = sorted({f'{r[1]}:{r[2]}' for r in rs if r[1] != own})
    rows.append((d, (m.get('summary') or '')[:140].replace('|', '/').replace('\n', ' '), (m.get('needs_to_manifest') or '')[:140].replace('|', '/').replace('\n', ' '),
                 f'{last_own}' + (f' (first run: {first_own})' if first_own and first_own != last_own else ''), ' '.join(others), (own_res[-1][3] if own_res else '')[:110]))
with open(S + '/RESULTS.md', 'w') as f:
    f.write("# Seeded changes vs. the quick checks\n\nWritten by independent sub-agents from the text of one property only (round 1: `<id>-A/B`; later rounds, each told what the earlier ones had produced: `<id>-r2A/B`, `-r3A/B`, `-r4A/B`, `-r5A/B`). Each directory holds `patch.diff`, `demo.sh` (exit 0 on HEAD, non-zero with the patch) and `meta.json` (what it needs to manifest, how it was confirmed, every run against the checks). Confirmation: `tools/seed_import.sh`; runs: `tools/mutant.sh` (logs `run_*.log`).\n\n")
    f.write("| id | change | needs | own property's quick check | other checks | signatures |\n|---|---|---|---|---|---|\n")
    for r in rows:
        f.write('| ' + ' | '.join(r) + ' |\n')
    caught = sum(1 for r in rows if r[3].startswith('CAUGHT'))
    nowhere = [r[0] for r in rows if not r[3].startswith('CAUGHT') and 'CAUGHT' not in r[4]]
    f.write(f"\n{caught} of {len(rows)} are caught by the quick check of the property they were written against; "
            f"{len(rows) - caught - len(nowhere)} more are caught by the check named in the 'other checks' column; "
            f"not detected by any check: {', '.join(nowhere) if nowhere else 'none'} (see DESIGN.md §12).\n")
print(len(rows), 'seeded changes')
