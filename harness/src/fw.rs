//! Framework: shard context, evidence merging, known findings, verdict output.

use crate::util::Scratch;
use serde_json::{json, Map, Value};
use std::collections::{BTreeMap, BTreeSet, HashSet};
use std::path::{Path, PathBuf};
use std::time::{Duration, Instant};

#[derive(Debug, Clone, Copy, PartialEq)]
pub enum Tier {
    Quick,
    Thorough,
}

impl Tier {
    pub fn name(&self) -> &'static str {
        match self {
            Tier::Quick => "quick",
            Tier::Thorough => "thorough",
        }
    }
    pub fn pick<T>(&self, q: T, t: T) -> T {
        match self {
            Tier::Quick => q,
            Tier::Thorough => t,
        }
    }
}

#[derive(Debug, Clone)]
pub struct Violation {
    /// stable identification of the failing shape (known-findings key)
    pub sig: String,
    pub message: String,
    pub case: Value,
}

pub struct Ctx {
    pub prop: String,
    pub tier: Tier,
    pub seed: u64,
    pub shard: u32,
    pub shards: u32,
    pub scratch: Scratch,
    pub started: Instant,
    pub budget: Duration,
    pub evals: u64,
    pub distinct: HashSet<u64>,
    pub samples: Vec<Value>,
    pub max_samples: usize,
    pub counters: BTreeMap<String, u64>,
    pub maxes: BTreeMap<String, u64>,
    pub sets: BTreeMap<String, BTreeSet<String>>,
    pub violations: Vec<Violation>,
    pub inconclusive: Vec<String>,
    pub exhaustive: Option<bool>,
    pub replay: bool,
    pub current_file: Option<PathBuf>,
    pub claims: Option<PathBuf>,
}

impl Ctx {
    pub fn new(prop: &str, tier: Tier, seed: u64, shard: u32, shards: u32) -> Self {
        Self {
            prop: prop.to_string(),
            tier,
            seed,
            shard,
            shards,
            scratch: Scratch::new(&format!("{prop}.{shard}")),
            started: Instant::now(),
            budget: Duration::from_secs(std::env::var("VERIF_BUDGET").ok().and_then(|s| s.parse().ok()).unwrap_or(tier.pick(60, 600))),
            evals: 0,
            distinct: HashSet::new(),
            samples: vec![],
            max_samples: 3,
            counters: BTreeMap::new(),
            maxes: BTreeMap::new(),
            sets: BTreeMap::new(),
            violations: vec![],
            inconclusive: vec![],
            exhaustive: None,
            replay: false,
            current_file: None,
            claims: std::env::var("VERIF_CLAIMS").ok().map(PathBuf::from),
        }
    }
    /// Dynamic load balancing between shards: true if this shard gets work item `k`
    /// (first shard to create the claim file wins). Without a claims directory: round robin.
    pub fn claim(&self, k: u64) -> bool {
        match &self.claims {
            Some(d) => std::fs::OpenOptions::new().write(true).create_new(true).open(d.join(k.to_string())).is_ok(),
            None => k % self.shards as u64 == self.shard as u64,
        }
    }
    /// seed for this shard
    pub fn shard_seed(&self) -> u64 {
        self.seed.wrapping_mul(1000).wrapping_add(self.shard as u64)
    }
    pub fn time_left(&self) -> bool {
        self.started.elapsed() < self.budget
    }
    pub fn count(&mut self, key: &str, n: u64) {
        *self.counters.entry(key.to_string()).or_insert(0) += n;
    }
    pub fn max(&mut self, key: &str, n: u64) {
        let e = self.maxes.entry(key.to_string()).or_insert(0);
        *e = (*e).max(n);
    }
    pub fn cover(&mut self, set: &str, item: &str) {
        self.sets.entry(set.to_string()).or_default().insert(item.to_string());
    }
    pub fn sample(&mut self, v: impl FnOnce() -> Value) {
        if self.samples.len() < self.max_samples {
            self.samples.push(v());
        }
    }
    pub fn violation(&mut self, sig: impl Into<String>, message: impl Into<String>, case: Value) {
        let sig = sig.into();
        let message = message.into();
        if self.replay {
            println!("  violation: [{sig}] {message}");
        }
        // keep at most 3 per signature, 60 overall
        if self.violations.iter().filter(|v| v.sig == sig).count() >= 3 || self.violations.len() >= 60 {
            self.count("violations_dropped_duplicates", 1);
            return;
        }
        self.violations.push(Violation { sig, message, case });
    }
    pub fn inconclusive(&mut self, what: impl Into<String>) {
        let w = what.into();
        eprintln!("INCONCLUSIVE property={} {}", self.prop, w);
        if self.inconclusive.len() < 20 {
            self.inconclusive.push(w);
        }
        self.count("inconclusive", 1);
    }
    /// record the case about to run, so that a dying shard leaves a witness (C18)
    pub fn set_current(&self, case: &Value) {
        if let Some(p) = &self.current_file {
            let _ = std::fs::write(p, serde_json::to_vec(case).unwrap_or_default());
        }
    }
    pub fn to_json(&self) -> Value {
        json!({
            "evals": self.evals,
            "samples": self.samples,
            "counters": self.counters,
            "maxes": self.maxes,
            "sets": self.sets,
            "violations": self.violations.iter().map(|v| json!({"sig": v.sig, "message": v.message, "case": v.case})).collect::<Vec<_>>(),
            "inconclusive": self.inconclusive,
            "exhaustive": self.exhaustive,
            "wall_s": self.started.elapsed().as_secs_f64(),
        })
    }
}

pub struct PropInfo {
    pub id: &'static str,
    pub level: &'static str,
    pub rule: &'static str,
    pub assumptions: &'static [&'static str],
    /// minimum number of distinct non-trivial cases for a conclusive run (per tier)
    pub floor: (u64, u64),
    pub shards: (u32, u32),
    pub run: fn(&mut Ctx),
    pub replay: fn(&mut Ctx, &Value),
}

fn verif_dir() -> PathBuf {
    PathBuf::from(std::env::var("VERIF_DIR").unwrap_or_else(|_| "/verif".into()))
}

pub fn load_known() -> Vec<Value> {
    let p = verif_dir().join("known_findings.json");
    match std::fs::read(&p) {
        Ok(b) => serde_json::from_slice::<Value>(&b).ok().and_then(|v| v.get("findings").and_then(|f| f.as_array().cloned())).unwrap_or_default(),
        Err(_) => vec![],
    }
}

/// Parent side: run all shards as child processes, merge, write evidence, print verdict lines.
pub fn run_parent(info: &PropInfo, tier: Tier, seed: u64) -> i32 {
    let t0 = Instant::now();
    let jobs: u32 = std::env::var("VERIF_JOBS").ok().and_then(|s| s.parse().ok()).unwrap_or(16);
    let shards = tier.pick(info.shards.0, info.shards.1).min(jobs.max(1));
    // remove scratch directories left behind by killed runs (owner pid no longer alive)
    if let Ok(rd) = std::fs::read_dir(crate::util::scratch_base()) {
        for e in rd.flatten() {
            let name = e.file_name().to_string_lossy().to_string();
            if let Some(rest) = name.strip_prefix("txtpp-verif.") {
                if let Some(pid) = rest.split('.').next().and_then(|p| p.parse::<i32>().ok()) {
                    if !std::path::Path::new(&format!("/proc/{pid}")).exists() {
                        let _ = std::fs::remove_dir_all(e.path());
                    }
                }
            }
        }
    }
    let exe = std::env::current_exe().expect("current exe");
    let tmp = crate::util::scratch_base().join(format!("txtpp-verif.{}.parent", std::process::id()));
    let _ = std::fs::remove_dir_all(&tmp);
    std::fs::create_dir_all(&tmp).expect("parent scratch");
    let claims = tmp.join("claims");
    std::fs::create_dir_all(&claims).expect("claims dir");
    let mut children = vec![];
    for i in 0..shards {
        let out = tmp.join(format!("shard{i}.json"));
        let child = std::process::Command::new(&exe)
            .args(["shard", info.id, tier.name(), &seed.to_string(), &i.to_string(), &shards.to_string()])
            .arg(&out)
            .env("RUST_BACKTRACE", "0")
            .env("VERIF_CLAIMS", &claims)
            .env_remove("TXTPP_FILE")
            .spawn()
            .expect("spawn shard");
        children.push((i, child, out));
    }
    let mut evals = 0u64;
    let mut distinct: HashSet<u64> = HashSet::new();
    let mut samples: Vec<Value> = vec![];
    let mut counters: BTreeMap<String, u64> = BTreeMap::new();
    let mut maxes: BTreeMap<String, u64> = BTreeMap::new();
    let mut sets: BTreeMap<String, BTreeSet<String>> = BTreeMap::new();
    let mut violations: Vec<Violation> = vec![];
    let mut inconclusive: Vec<String> = vec![];
    let mut exhaustive: Option<bool> = None;
    let mut harness_errors: Vec<String> = vec![];
    for (i, mut child, out) in children {
        let status = child.wait();
        let ok = matches!(&status, Ok(s) if s.success());
        let data = std::fs::read(&out).ok().and_then(|b| serde_json::from_slice::<Value>(&b).ok());
        if !ok || data.is_none() {
            let cur = std::fs::read(out.with_extension("current")).ok().and_then(|b| serde_json::from_slice::<Value>(&b).ok());
            if info.id == "C18" && cur.is_some() && !ok {
                violations.push(Violation {
                    sig: format!("C18:process-died:{:?}", status.as_ref().ok().map(|s| s.to_string())),
                    message: format!("the process running txtpp in-process died ({status:?}) while executing this case"),
                    case: cur.unwrap(),
                });
            } else {
                harness_errors.push(format!("shard {i} failed: status={status:?} output_present={}", data.is_some()));
            }
            if data.is_none() {
                continue;
            }
        }
        let data = data.unwrap();
        evals += data["evals"].as_u64().unwrap_or(0);
        if let Ok(b) = std::fs::read(out.with_extension("distinct")) {
            for c in b.chunks_exact(8) {
                distinct.insert(u64::from_le_bytes(c.try_into().unwrap()));
            }
        }
        for s in data["samples"].as_array().cloned().unwrap_or_default() {
            if samples.len() < 6 {
                samples.push(s);
            }
        }
        for (k, v) in data["counters"].as_object().cloned().unwrap_or_default() {
            *counters.entry(k).or_insert(0) += v.as_u64().unwrap_or(0);
        }
        for (k, v) in data["maxes"].as_object().cloned().unwrap_or_default() {
            let e = maxes.entry(k).or_insert(0);
            *e = (*e).max(v.as_u64().unwrap_or(0));
        }
        for (k, v) in data["sets"].as_object().cloned().unwrap_or_default() {
            let e = sets.entry(k).or_default();
            for x in v.as_array().cloned().unwrap_or_default() {
                if let Some(s) = x.as_str() {
                    e.insert(s.to_string());
                }
            }
        }
        for v in data["violations"].as_array().cloned().unwrap_or_default() {
            violations.push(Violation { sig: v["sig"].as_str().unwrap_or("").to_string(), message: v["message"].as_str().unwrap_or("").to_string(), case: v["case"].clone() });
        }
        for v in data["inconclusive"].as_array().cloned().unwrap_or_default() {
            if let Some(s) = v.as_str() {
                inconclusive.push(s.to_string());
            }
        }
        match data["exhaustive"].as_bool() {
            Some(b) => exhaustive = Some(exhaustive.unwrap_or(true) && b),
            None => {}
        }
    }
    let _ = std::fs::remove_dir_all(&tmp);

    // known findings
    let known = load_known();
    let mut known_hit: Vec<String> = vec![];
    let mut fresh: Vec<&Violation> = vec![];
    for v in &violations {
        let m = known.iter().find(|k| k["property"].as_str() == Some(info.id) && k["status"].as_str() == Some("open") && k["signature"].as_str() == Some(v.sig.as_str()));
        match m {
            Some(k) => {
                let line = format!("KNOWN-FINDING: property={} {} [{}]", info.id, k["what"].as_str().unwrap_or(""), v.sig);
                if !known_hit.contains(&line) {
                    known_hit.push(line);
                }
            }
            None => fresh.push(v),
        }
    }
    for l in &known_hit {
        println!("{l}");
    }
    let mut seen_sigs: Vec<String> = vec![];
    let rdir = verif_dir().join("replays");
    let mut n = 0;
    for v in &fresh {
        if seen_sigs.contains(&v.sig) {
            continue;
        }
        seen_sigs.push(v.sig.clone());
        if n >= 20 {
            break;
        }
        let d = rdir.join(format!("{}-s{}-{}", info.id, seed, n));
        let _ = std::fs::remove_dir_all(&d);
        let _ = std::fs::create_dir_all(&d);
        let mut case = v.case.clone();
        if let Some(m) = case.as_object_mut() {
            m.insert("property".into(), json!(info.id));
            m.insert("signature".into(), json!(v.sig));
            m.insert("message".into(), json!(v.message));
            m.insert("tier".into(), json!(tier.name()));
            m.insert("seed".into(), json!(seed));
        }
        let _ = std::fs::write(d.join("case.json"), serde_json::to_vec_pretty(&case).unwrap_or_default());
        let _ = std::fs::write(d.join("message.txt"), format!("[{}]\n{}\n", v.sig, v.message));
        println!("VIOLATION property={} replay={}", info.id, d.display());
        println!("  [{}] {}", v.sig, v.message.lines().take(12).collect::<Vec<_>>().join("\n  "));
        n += 1;
    }
    for e in &harness_errors {
        eprintln!("HARNESS-ERROR property={} {e}", info.id);
    }
    let floor = tier.pick(info.floor.0, info.floor.1);
    let below_floor = (distinct.len() as u64) < floor;
    if below_floor {
        eprintln!("INCONCLUSIVE property={} only {} distinct non-trivial cases (floor {floor})", info.id, distinct.len());
    }

    // evidence
    let mut cov = Map::new();
    cov.insert("evaluations".into(), json!(evals));
    cov.insert("distinct_nontrivial".into(), json!(distinct.len()));
    cov.insert("rule".into(), json!(info.rule));
    cov.insert("samples".into(), json!(samples));
    if let Some(e) = exhaustive {
        cov.insert("exhaustive".into(), json!(e));
    }
    for (k, v) in &counters {
        cov.insert(k.clone(), json!(v));
    }
    for (k, v) in &maxes {
        cov.insert(k.clone(), json!(v));
    }
    for (k, v) in &sets {
        cov.insert(format!("distinct_{k}"), json!(v.len()));
        let items: Vec<&String> = v.iter().take(40).collect();
        cov.insert(format!("{k}_seen"), json!(items));
    }
    cov.insert("inconclusive_cases".into(), json!(inconclusive.len()));
    if !inconclusive.is_empty() {
        cov.insert("inconclusive_examples".into(), json!(inconclusive.iter().take(5).collect::<Vec<_>>()));
    }
    cov.insert("known_findings_hit".into(), json!(known_hit));
    cov.insert("shards".into(), json!(shards));
    cov.insert("harness_errors".into(), json!(harness_errors));
    let ev = json!({
        "property_id": info.id,
        "tier": tier.name(),
        "seed": seed,
        "level": info.level,
        "coverage": Value::Object(cov),
        "assumptions": info.assumptions,
        "wall_s": t0.elapsed().as_secs_f64(),
        "violations": seen_sigs.len(),
    });
    let edir = verif_dir().join("evidence");
    let _ = std::fs::create_dir_all(&edir);
    let _ = std::fs::write(edir.join(format!("{}.json", info.id)), serde_json::to_vec_pretty(&ev).unwrap_or_default());
    println!(
        "property={} tier={} seed={} evaluations={} distinct_nontrivial={} violations={} known_findings={} inconclusive={} wall={:.1}s",
        info.id,
        tier.name(),
        seed,
        evals,
        distinct.len(),
        seen_sigs.len(),
        known_hit.len(),
        inconclusive.len(),
        t0.elapsed().as_secs_f64()
    );
    if !seen_sigs.is_empty() {
        1
    } else if !harness_errors.is_empty() || below_floor {
        2
    } else {
        0
    }
}

pub fn run_shard(info: &PropInfo, tier: Tier, seed: u64, shard: u32, shards: u32, out: &Path) -> i32 {
    let mut ctx = Ctx::new(info.id, tier, seed, shard, shards);
    ctx.current_file = Some(out.with_extension("current"));
    (info.run)(&mut ctx);
    let mut b: Vec<u8> = Vec::with_capacity(ctx.distinct.len() * 8);
    for d in &ctx.distinct {
        b.extend_from_slice(&d.to_le_bytes());
    }
    let _ = std::fs::write(out.with_extension("distinct"), b);
    let _ = std::fs::write(out, serde_json::to_vec(&ctx.to_json()).unwrap_or_default());
    0
}

pub fn run_replay(info: &PropInfo, dir: &Path) -> i32 {
    let case: Value = match std::fs::read(dir.join("case.json")).ok().and_then(|b| serde_json::from_slice(&b).ok()) {
        Some(c) => c,
        None => {
            eprintln!("cannot read {}/case.json", dir.display());
            return 2;
        }
    };
    let tier = if case["tier"].as_str() == Some("thorough") { Tier::Thorough } else { Tier::Quick };
    let mut ctx = Ctx::new(info.id, tier, case["seed"].as_u64().unwrap_or(1), 0, 1);
    ctx.replay = true;
    println!("replaying {} [{}]", dir.display(), case["signature"].as_str().unwrap_or(""));
    (info.replay)(&mut ctx, &case);
    if ctx.violations.is_empty() {
        println!("replay: no violation reproduced");
        0
    } else {
        println!("replay: {} violation(s) reproduced", ctx.violations.len());
        1
    }
}
