//! Drivers for the real code: in-process `Txtpp::run` under the controller, and the CLI binary.

use crate::sched::{Ctl, Signal, Spec, Trace};
use std::path::{Path, PathBuf};
use std::sync::mpsc;
use std::sync::{Arc, Mutex, OnceLock};
use std::time::{Duration, Instant};
use txtpp::{Config, Mode, Txtpp, Verbosity};

pub static CTL: OnceLock<Arc<Ctl>> = OnceLock::new();
static PANICS: Mutex<Vec<String>> = Mutex::new(Vec::new());

/// Install the controller and the panic hook (once per process)
pub fn init() -> Arc<Ctl> {
    CTL.get_or_init(|| {
        let c = Ctl::new();
        txtpp::verif::install(Some(c.clone()));
        std::panic::set_hook(Box::new(|info| {
            let thread = std::thread::current();
            let msg = format!("thread `{}`: {}", thread.name().unwrap_or("?"), info);
            if let Ok(mut p) = PANICS.lock() {
                p.push(msg);
            }
            // a panic must never leave tasks parked at gates (Drop joins the pool)
            if let Some(c) = CTL.get() {
                c.open_gates();
            }
        }));
        c
    })
    .clone()
}

#[derive(Debug, Clone, PartialEq)]
pub enum Verdict {
    Ok,
    Err(String),
    /// the coordinator can never leave its loop
    Deadlock,
    /// the thread calling `Txtpp::run` panicked
    MainPanic(String),
    /// after an error the workers are blocked inside the channel send while `Drop` joins the pool
    /// (bounded-progress predicate of sched.rs held for 10 s): `Txtpp::run` can never return
    HangInDrop,
    /// one directory was queued for scanning more than `sched::RESCAN_LIMIT` times: endless rescan
    Livelock,
    /// a worker task made no progress for 20 s although every command of the workload takes
    /// milliseconds (bounded-progress predicate `sched::stuck_task`)
    StuckTask,
    /// harness watchdog fired: inconclusive, never a violation
    Watchdog,
}

impl Verdict {
    pub fn is_ok(&self) -> bool {
        matches!(self, Verdict::Ok)
    }
    pub fn is_err(&self) -> bool {
        matches!(self, Verdict::Err(_))
    }
    pub fn short(&self) -> String {
        match self {
            Verdict::Ok => "ok".into(),
            Verdict::Err(m) => format!("err({})", m.lines().map(|l| l.trim()).filter(|l| !l.is_empty()).take(4).collect::<Vec<_>>().join(" | ")),
            Verdict::Deadlock => "DEADLOCK".into(),
            Verdict::HangInDrop => "HANG-IN-DROP".into(),
            Verdict::Livelock => "LIVELOCK(rescanning a directory without end)".into(),
            Verdict::StuckTask => "STUCK-TASK(a worker never finished its task)".into(),
            Verdict::MainPanic(m) => format!("PANIC({m})"),
            Verdict::Watchdog => "watchdog".into(),
        }
    }
}

#[derive(Debug, Clone)]
pub struct Outcome {
    pub verdict: Verdict,
    pub trace: Trace,
    /// panic messages from any thread during this run
    pub panics: Vec<String>,
    /// worker tasks that were still running when `Txtpp::run` returned
    pub late_tasks: u64,
    pub wall: Duration,
}

#[derive(Debug, Clone, PartialEq)]
pub struct RunCfg {
    pub base: PathBuf,
    pub inputs: Vec<String>,
    pub mode: Mode,
    pub threads: usize,
    pub recursive: bool,
    pub trailing: bool,
    pub shell: String,
}

impl RunCfg {
    pub fn new(base: &Path, mode: Mode) -> Self {
        Self { base: base.to_path_buf(), inputs: vec![".".into()], mode, threads: 2, recursive: true, trailing: true, shell: String::new() }
    }
    pub fn config(&self) -> Config {
        Config {
            base_dir: self.base.clone(),
            shell_cmd: self.shell.clone(),
            inputs: self.inputs.clone(),
            recursive: self.recursive,
            num_threads: self.threads,
            mode: self.mode.clone(),
            verbosity: Verbosity::Quiet,
            trailing_newline: self.trailing,
        }
    }
    pub fn cli_args(&self) -> Vec<String> {
        let mut a: Vec<String> = vec![];
        match self.mode {
            Mode::Build => {}
            Mode::InMemoryBuild => a.push("-N".into()),
            Mode::Clean => a.push("clean".into()),
            Mode::Verify => a.push("verify".into()),
        }
        a.push("-q".into());
        if self.recursive {
            a.push("-r".into());
        }
        a.push("-j".into());
        a.push(self.threads.to_string());
        if !matches!(self.mode, Mode::Clean) {
            if !self.shell.is_empty() {
                a.push("-s".into());
                a.push(self.shell.clone());
            }
            if !self.trailing {
                a.push("-n".into());
            }
        }
        a.push("--".into());
        a.extend(self.inputs.iter().cloned());
        a
    }
    pub fn json(&self) -> serde_json::Value {
        serde_json::json!({"base": self.base.to_string_lossy(), "inputs": self.inputs, "mode": mode_name(&self.mode), "threads": self.threads,
            "recursive": self.recursive, "trailing": self.trailing, "shell": self.shell})
    }
}

pub fn mode_name(m: &Mode) -> &'static str {
    match m {
        Mode::Build => "build",
        Mode::InMemoryBuild => "needed",
        Mode::Clean => "clean",
        Mode::Verify => "verify",
    }
}

pub fn mode_from(s: &str) -> Mode {
    match s {
        "build" => Mode::Build,
        "needed" => Mode::InMemoryBuild,
        "clean" => Mode::Clean,
        _ => Mode::Verify,
    }
}

/// Run the real library entry point once, under `spec`. One run at a time per process.
/// `cwd`: process working directory to set for the run (None = leave).
pub fn run_inproc(cfg: &RunCfg, spec: Spec, cwd: Option<&Path>, log_events: bool) -> Outcome {
    let ctl = init();
    if let Some(d) = cwd {
        let _ = std::env::set_current_dir(d);
    }
    if let Ok(mut p) = PANICS.lock() {
        p.clear();
    }
    let (sig_tx, sig_rx) = mpsc::channel::<Signal>();
    let (res_tx, res_rx) = mpsc::channel::<Result<Result<(), String>, String>>();
    ctl.arm(spec, sig_tx, log_events);
    let config = cfg.config();
    let t0 = Instant::now();
    let handle = std::thread::Builder::new()
        .name("coordinator".into())
        .spawn(move || {
            let r = std::panic::catch_unwind(std::panic::AssertUnwindSafe(|| Txtpp::run(config).map_err(|e| format!("{e:?}"))));
            let r = r.map_err(|p| {
                if let Some(s) = p.downcast_ref::<&str>() {
                    s.to_string()
                } else if let Some(s) = p.downcast_ref::<String>() {
                    s.clone()
                } else {
                    "panic".to_string()
                }
            });
            let _ = res_tx.send(r);
        })
        .expect("spawn coordinator");
    let deadline = Instant::now() + Duration::from_secs(watchdog_secs());
    let verdict = loop {
        match res_rx.recv_timeout(Duration::from_millis(20)) {
            Ok(Ok(Ok(()))) => {
                let _ = handle.join();
                break Verdict::Ok;
            }
            Ok(Ok(Err(e))) => {
                let _ = handle.join();
                break Verdict::Err(e);
            }
            Ok(Err(p)) => {
                let _ = handle.join();
                break Verdict::MainPanic(p);
            }
            Err(mpsc::RecvTimeoutError::Timeout) => {
                match sig_rx.try_recv() {
                    Ok(Signal::Deadlock) => break Verdict::Deadlock, // coordinator thread stays parked (leaked)
                    Ok(Signal::Livelock) => break Verdict::Livelock,
                    Err(_) => {}
                }
                if ctl.stuck_task(Duration::from_secs(20)) {
                    break Verdict::StuckTask; // worker and coordinator threads stay blocked (leaked)
                }
                if ctl.stuck_in_send(Duration::from_secs(10)) {
                    break Verdict::HangInDrop; // coordinator thread stays blocked (leaked)
                }
                if Instant::now() > deadline {
                    break Verdict::Watchdog;
                }
            }
            Err(mpsc::RecvTimeoutError::Disconnected) => break Verdict::MainPanic("coordinator thread vanished".into()),
        }
    };
    // `Txtpp::run` joins its workers before it returns. If tasks are still running now, give them
    // a moment to finish so that what they do (e.g. panic on a closed channel) is attributed to
    // this run and not lost.
    let mut late_tasks = 0;
    if matches!(verdict, Verdict::Ok | Verdict::Err(_)) {
        late_tasks = ctl.in_flight_now();
        let until = Instant::now() + Duration::from_secs(4);
        while ctl.in_flight_now() > 0 && Instant::now() < until {
            std::thread::sleep(Duration::from_millis(20));
        }
    }
    let wall = t0.elapsed();
    let trace = ctl.disarm();
    let panics = PANICS.lock().map(|p| p.clone()).unwrap_or_default();
    Outcome { verdict, trace, panics, wall, late_tasks }
}

fn watchdog_secs() -> u64 {
    std::env::var("VERIF_WATCHDOG").ok().and_then(|s| s.parse().ok()).unwrap_or(60)
}

// ------------------------------------------------------------------------------------------ CLI

#[derive(Debug, Clone)]
pub struct CliOutcome {
    pub code: Option<i32>,
    pub signal: Option<i32>,
    pub stdout: String,
    pub stderr: String,
    pub wall: Duration,
    pub timed_out: bool,
}

impl CliOutcome {
    pub fn short(&self) -> String {
        format!(
            "code={:?} signal={:?}{} stderr={}",
            self.code,
            self.signal,
            if self.timed_out { " TIMEOUT" } else { "" },
            self.stderr.lines().map(|l| l.trim()).filter(|l| !l.is_empty()).take(4).collect::<Vec<_>>().join(" | ")
        )
    }
}

#[derive(Debug, Clone, Default)]
pub struct CliOpts {
    pub env: Vec<(String, String)>,
    pub env_remove: Vec<String>,
    /// RLIMIT_FSIZE in bytes (SIGXFSZ ignored) for the child
    pub fsize_limit: Option<u64>,
    /// wrap in strace, writing per-pid files with this prefix
    pub strace_prefix: Option<PathBuf>,
    /// kill the process group with SIGKILL after this delay
    pub kill_after: Option<Duration>,
    pub timeout: Option<Duration>,
    /// bytes offered on the child's standard input (default: /dev/null)
    pub stdin_data: Option<Vec<u8>>,
}

pub fn cli_bin() -> PathBuf {
    PathBuf::from(std::env::var("VERIF_CLI_BIN").unwrap_or_else(|_| "/verif/target/cli/debug/txtpp".into()))
}

pub const STRACE_SET: &str = "execve,clone,clone3,fork,vfork,chdir,fchdir,openat,open,creat,unlink,unlinkat,rename,renameat,renameat2,truncate,ftruncate,mkdir,mkdirat,rmdir,link,linkat,symlink,symlinkat,utimensat,fchmodat,chmod";

/// Run the txtpp binary in `cwd` with `args`
pub fn run_cli(cwd: &Path, args: &[String], opts: &CliOpts) -> CliOutcome {
    use std::os::unix::process::{CommandExt, ExitStatusExt};
    use std::process::{Command, Stdio};
    let bin = cli_bin();
    let mut cmd = if let Some(prefix) = &opts.strace_prefix {
        let mut c = Command::new("strace");
        c.args(["-ff", "-qq", "-s", "4096", "-v", "-e"]).arg(format!("trace={STRACE_SET}")).arg("-o").arg(prefix).arg(&bin);
        c
    } else {
        Command::new(&bin)
    };
    cmd.args(args).current_dir(cwd).env("RUST_BACKTRACE", "0").env_remove("TXTPP_FILE").env_remove("RUST_LOG");
    for (k, v) in &opts.env {
        cmd.env(k, v);
    }
    for k in &opts.env_remove {
        cmd.env_remove(k);
    }
    cmd.stdin(if opts.stdin_data.is_some() { Stdio::piped() } else { Stdio::null() }).stdout(Stdio::piped()).stderr(Stdio::piped());
    let fsize = opts.fsize_limit;
    unsafe {
        cmd.pre_exec(move || {
            // own process group so that a kill reaches the shell children too
            libc::setpgid(0, 0);
            if let Some(n) = fsize {
                libc::signal(libc::SIGXFSZ, libc::SIG_IGN);
                let lim = libc::rlimit { rlim_cur: n, rlim_max: n };
                libc::setrlimit(libc::RLIMIT_FSIZE, &lim);
            }
            Ok(())
        });
    }
    let t0 = Instant::now();
    let mut child = match cmd.spawn() {
        Ok(c) => c,
        Err(e) => {
            return CliOutcome { code: None, signal: None, stdout: String::new(), stderr: format!("spawn failed: {e}"), wall: t0.elapsed(), timed_out: false }
        }
    };
    let pid = child.id() as i32;
    if let Some(data) = &opts.stdin_data {
        if let Some(mut si) = child.stdin.take() {
            let data = data.clone();
            std::thread::spawn(move || {
                let _ = std::io::Write::write_all(&mut si, &data);
            });
        }
    }
    let timeout = opts.timeout.unwrap_or(Duration::from_secs(watchdog_secs()));
    let mut timed_out = false;
    // reader threads so a full pipe cannot block the child
    let mut so = child.stdout.take().unwrap();
    let mut se = child.stderr.take().unwrap();
    let h1 = std::thread::spawn(move || {
        let mut b = Vec::new();
        let _ = std::io::Read::read_to_end(&mut so, &mut b);
        b
    });
    let h2 = std::thread::spawn(move || {
        let mut b = Vec::new();
        let _ = std::io::Read::read_to_end(&mut se, &mut b);
        b
    });
    let mut killed = false;
    let status = loop {
        match child.try_wait() {
            Ok(Some(st)) => break Some(st),
            Ok(None) => {}
            Err(_) => break None,
        }
        let el = t0.elapsed();
        if let Some(k) = opts.kill_after {
            if !killed && el >= k {
                unsafe {
                    libc::kill(-pid, libc::SIGKILL);
                }
                killed = true;
            }
        }
        if el > timeout {
            timed_out = true;
            unsafe {
                libc::kill(-pid, libc::SIGKILL);
            }
            break child.wait().ok();
        }
        std::thread::sleep(Duration::from_micros(if opts.kill_after.is_some() { 200 } else { 2000 }));
    };
    // make sure nothing of the group survives
    unsafe {
        libc::kill(-pid, libc::SIGKILL);
    }
    let stdout = String::from_utf8_lossy(&h1.join().unwrap_or_default()).to_string();
    let stderr = String::from_utf8_lossy(&h2.join().unwrap_or_default()).to_string();
    CliOutcome { code: status.and_then(|s| s.code()), signal: status.and_then(|s| s.signal()), stdout, stderr, wall: t0.elapsed(), timed_out }
}
