//! E5: syscall-trace monitor. Parses `strace -ff -o <prefix>` output (one file per thread /
//! process) and classifies what *txtpp itself* did: write-set, delete-set, creations, execs.
//! A line belongs to txtpp iff the program image of that pid at that moment is the txtpp binary:
//! images are tracked through clone/fork/vfork (child inherits) and execve (replaces).

use std::collections::{BTreeMap, HashMap};
use std::path::{Path, PathBuf};

#[derive(Debug, Clone)]
pub struct Exec {
    pub path: String,
    pub argv: Vec<String>,
    pub txtpp_file: Option<String>,
    pub cwd: PathBuf,
    pub ok: bool,
}

#[derive(Debug, Default, Clone)]
pub struct SysTrace {
    /// paths txtpp opened for writing / truncated / renamed / linked (successful calls)
    pub writes: Vec<PathBuf>,
    pub deletes: Vec<PathBuf>,
    /// successful opens with O_CREAT, mkdir, link, symlink
    pub creates: Vec<PathBuf>,
    /// programs exec'ed *by txtpp* (i.e. the image before the exec was txtpp)
    pub execs: Vec<Exec>,
    pub lines_by_txtpp: usize,
    pub lines_total: usize,
    pub pids: usize,
}

#[derive(Debug, Clone, PartialEq)]
enum Arg {
    Str(String),
    List(Vec<String>),
    Raw(String),
}

fn parse_string(b: &[u8], i: &mut usize) -> String {
    // b[*i] == '"'
    let mut out: Vec<u8> = vec![];
    *i += 1;
    while *i < b.len() {
        match b[*i] {
            b'"' => {
                *i += 1;
                break;
            }
            b'\\' if *i + 1 < b.len() => {
                *i += 1;
                match b[*i] {
                    b'n' => out.push(b'\n'),
                    b't' => out.push(b'\t'),
                    b'r' => out.push(b'\r'),
                    b'v' => out.push(0x0b),
                    b'f' => out.push(0x0c),
                    b'x' => {
                        let h = std::str::from_utf8(&b[*i + 1..(*i + 3).min(b.len())]).unwrap_or("0");
                        out.push(u8::from_str_radix(h, 16).unwrap_or(b'?'));
                        *i += 2;
                    }
                    c @ b'0'..=b'7' => {
                        let mut v = (c - b'0') as u32;
                        let mut n = 1;
                        while n < 3 && *i + 1 < b.len() && (b'0'..=b'7').contains(&b[*i + 1]) {
                            *i += 1;
                            v = v * 8 + (b[*i] - b'0') as u32;
                            n += 1;
                        }
                        out.push(v as u8);
                    }
                    c => out.push(c),
                }
                *i += 1;
            }
            c => {
                out.push(c);
                *i += 1;
            }
        }
    }
    // strace appends "..." when truncated
    if b[*i..].starts_with(b"...") {
        *i += 3;
    }
    String::from_utf8_lossy(&out).to_string()
}

fn parse_call(line: &str) -> Option<(String, Vec<Arg>, String)> {
    let open = line.find('(')?;
    let name = line[..open].trim().to_string();
    if name.is_empty() || !name.chars().all(|c| c.is_ascii_alphanumeric() || c == '_') {
        return None;
    }
    let b = line.as_bytes();
    let mut i = open + 1;
    let mut args: Vec<Arg> = vec![];
    let mut raw = String::new();
    let mut list: Option<Vec<String>> = None;
    let mut depth = 0;
    while i < b.len() {
        match b[i] {
            b'"' => {
                let s = parse_string(b, &mut i);
                match &mut list {
                    Some(l) => l.push(s),
                    None => args.push(Arg::Str(s)),
                }
                continue;
            }
            b'[' if list.is_none() => {
                list = Some(vec![]);
            }
            b']' if list.is_some() => {
                args.push(Arg::List(list.take().unwrap()));
            }
            b'(' | b'{' => {
                depth += 1;
                raw.push(b[i] as char);
            }
            b'}' => {
                depth -= 1;
                raw.push('}');
            }
            b')' => {
                if depth == 0 {
                    if !raw.trim().is_empty() {
                        args.push(Arg::Raw(raw.trim().to_string()));
                    }
                    i += 1;
                    break;
                }
                depth -= 1;
                raw.push(')');
            }
            b',' if depth == 0 && list.is_none() => {
                if !raw.trim().is_empty() {
                    args.push(Arg::Raw(raw.trim().to_string()));
                }
                raw.clear();
            }
            c => {
                if list.is_none() {
                    raw.push(c as char);
                }
            }
        }
        i += 1;
    }
    let result = line[i.min(line.len())..].trim().trim_start_matches('=').trim().to_string();
    Some((name, args, result))
}

fn ok_result(r: &str) -> Option<i64> {
    let first = r.split_whitespace().next()?;
    let v: i64 = first.parse().ok()?;
    if v >= 0 {
        Some(v)
    } else {
        None
    }
}

struct PidFile {
    lines: Vec<String>,
}

/// Parse all per-pid files in `dir` (named `<prefix>.<pid>`). `launch_cwd` is the working
/// directory txtpp was started in.
pub fn parse_strace(dir: &Path, launch_cwd: &Path) -> SysTrace {
    let mut files: BTreeMap<u64, PidFile> = BTreeMap::new();
    if let Ok(rd) = std::fs::read_dir(dir) {
        for e in rd.flatten() {
            let name = e.file_name().to_string_lossy().to_string();
            if let Some(pid) = name.rsplit('.').next().and_then(|p| p.parse::<u64>().ok()) {
                let text = String::from_utf8_lossy(&std::fs::read(e.path()).unwrap_or_default()).to_string();
                files.insert(pid, PidFile { lines: text.lines().map(String::from).collect() });
            }
        }
    }
    let mut tr = SysTrace { pids: files.len(), ..Default::default() };
    // child pid -> (parent pid, line index in parent)
    let mut parent_of: HashMap<u64, (u64, usize)> = HashMap::new();
    for (pid, f) in &files {
        for (li, l) in f.lines.iter().enumerate() {
            if l.starts_with("clone") || l.starts_with("fork") || l.starts_with("vfork") {
                if let Some((_, _, res)) = parse_call(l) {
                    if let Some(child) = ok_result(&res) {
                        if child > 0 {
                            parent_of.insert(child as u64, (*pid, li));
                        }
                    }
                }
            }
        }
    }
    // state of a pid at a given line: (is_txtpp image, cwd). Computed by replaying from its start.
    fn state_at(pid: u64, upto: usize, files: &BTreeMap<u64, PidFile>, parent_of: &HashMap<u64, (u64, usize)>, launch: &Path, depth: usize) -> (bool, PathBuf) {
        let (mut is_txtpp, mut cwd) = match parent_of.get(&pid) {
            Some((pp, li)) if depth < 64 && files.contains_key(pp) => state_at(*pp, *li, files, parent_of, launch, depth + 1),
            // root of the trace: strace's child before it execs txtpp; treat as not-txtpp until execve
            _ => (false, launch.to_path_buf()),
        };
        if let Some(f) = files.get(&pid) {
            for l in f.lines.iter().take(upto) {
                if l.starts_with("execve(") {
                    if let Some((_, args, res)) = parse_call(l) {
                        if ok_result(&res).is_some() {
                            if let Some(Arg::Str(p)) = args.first() {
                                is_txtpp = is_txtpp_bin(p);
                            }
                        }
                    }
                } else if l.starts_with("chdir(") {
                    if let Some((_, args, res)) = parse_call(l) {
                        if ok_result(&res).is_some() {
                            if let Some(Arg::Str(p)) = args.first() {
                                cwd = if Path::new(p).is_absolute() { PathBuf::from(p) } else { cwd.join(p) };
                            }
                        }
                    }
                }
            }
        }
        (is_txtpp, cwd)
    }
    for (pid, f) in &files {
        let (mut is_txtpp, mut cwd) = state_at(*pid, 0, &files, &parent_of, launch_cwd, 0);
        for l in &f.lines {
            tr.lines_total += 1;
            let Some((name, args, res)) = parse_call(l) else { continue };
            let okr = ok_result(&res);
            let abs = |p: &str, cwd: &Path| -> PathBuf { normalize(&if Path::new(p).is_absolute() { PathBuf::from(p) } else { cwd.join(p) }) };
            let strs: Vec<&String> = args.iter().filter_map(|a| if let Arg::Str(s) = a { Some(s) } else { None }).collect();
            let raws: String = args.iter().filter_map(|a| if let Arg::Raw(s) = a { Some(s.as_str()) } else { None }).collect::<Vec<_>>().join(",");
            if is_txtpp {
                tr.lines_by_txtpp += 1;
            }
            match name.as_str() {
                "execve" => {
                    let path = strs.first().map(|s| s.to_string()).unwrap_or_default();
                    let lists: Vec<&Vec<String>> = args.iter().filter_map(|a| if let Arg::List(l) = a { Some(l) } else { None }).collect();
                    if is_txtpp {
                        let argv = lists.first().map(|l| (*l).clone()).unwrap_or_default();
                        let txtpp_file = lists.get(1).and_then(|env| env.iter().find_map(|kv| kv.strip_prefix("TXTPP_FILE=").map(String::from)));
                        // failed attempts of a PATH search are recorded too (ok=false)
                        tr.execs.push(Exec { path: path.clone(), argv, txtpp_file, cwd: cwd.clone(), ok: okr.is_some() });
                    }
                    if okr.is_some() {
                        is_txtpp = is_txtpp_bin(&path);
                    }
                }
                "chdir" => {
                    if okr.is_some() {
                        if let Some(p) = strs.first() {
                            cwd = abs(p, &cwd);
                        }
                    }
                }
                _ if !is_txtpp => {}
                "open" | "openat" | "creat" => {
                    if okr.is_some() {
                        if let Some(p) = strs.first() {
                            let w = name == "creat" || ["O_WRONLY", "O_RDWR", "O_CREAT", "O_TRUNC", "O_APPEND"].iter().any(|f| raws.contains(f));
                            if w {
                                tr.writes.push(abs(p, &cwd));
                            }
                            if name == "creat" || raws.contains("O_CREAT") {
                                tr.creates.push(abs(p, &cwd));
                            }
                        }
                    }
                }
                "unlink" | "unlinkat" | "rmdir" => {
                    if okr.is_some() {
                        if let Some(p) = strs.first() {
                            tr.deletes.push(abs(p, &cwd));
                        }
                    }
                }
                "rename" | "renameat" | "renameat2" | "link" | "linkat" | "symlink" | "symlinkat" => {
                    if okr.is_some() {
                        for p in &strs {
                            tr.writes.push(abs(p, &cwd));
                        }
                        if let Some(p) = strs.last() {
                            tr.creates.push(abs(p, &cwd));
                        }
                    }
                }
                "truncate" | "utimensat" | "chmod" | "fchmodat" => {
                    if okr.is_some() {
                        if let Some(p) = strs.first() {
                            tr.writes.push(abs(p, &cwd));
                        }
                    }
                }
                "mkdir" | "mkdirat" => {
                    if okr.is_some() {
                        if let Some(p) = strs.first() {
                            tr.creates.push(abs(p, &cwd));
                            tr.writes.push(abs(p, &cwd));
                        }
                    }
                }
                _ => {}
            }
        }
    }
    tr
}

fn is_txtpp_bin(p: &str) -> bool {
    Path::new(p).file_name().map(|f| f == "txtpp").unwrap_or(false)
}

fn normalize(p: &Path) -> PathBuf {
    let mut out = PathBuf::new();
    for c in p.components() {
        match c {
            std::path::Component::ParentDir => {
                out.pop();
            }
            std::path::Component::CurDir => {}
            x => out.push(x.as_os_str()),
        }
    }
    out
}
