//! Small shared helpers: scratch directories, project trees, snapshots (E4), hashing, JSON bytes.

use serde_json::{json, Value};
use std::collections::{BTreeMap, BTreeSet};
use std::os::unix::fs::MetadataExt;
use std::path::{Path, PathBuf};
use std::time::{Duration, SystemTime, UNIX_EPOCH};

pub type Files = BTreeMap<String, Vec<u8>>;

pub fn fnv(bytes: &[u8]) -> u64 {
    let mut h: u64 = 0xcbf29ce484222325;
    for b in bytes {
        h ^= *b as u64;
        h = h.wrapping_mul(0x100000001b3);
    }
    h
}

pub fn hash_str(s: &str) -> u64 {
    fnv(s.as_bytes())
}

pub fn hash_files(f: &Files) -> u64 {
    let mut h: u64 = 0x9e3779b97f4a7c15;
    for (k, v) in f {
        h = h.rotate_left(7) ^ fnv(k.as_bytes());
        h = h.rotate_left(11) ^ fnv(v);
    }
    h
}

/// Bytes as JSON: {"text": ...} when valid UTF-8, else {"hex": ...}
pub fn bytes_json(b: &[u8]) -> Value {
    match std::str::from_utf8(b) {
        Ok(s) => json!({ "text": s }),
        Err(_) => json!({ "hex": b.iter().map(|x| format!("{x:02x}")).collect::<String>() }),
    }
}

pub fn bytes_from_json(v: &Value) -> Vec<u8> {
    if let Some(s) = v.get("text").and_then(|x| x.as_str()) {
        return s.as_bytes().to_vec();
    }
    if let Some(h) = v.get("hex").and_then(|x| x.as_str()) {
        return (0..h.len() / 2).map(|i| u8::from_str_radix(&h[2 * i..2 * i + 2], 16).unwrap_or(0)).collect();
    }
    if let Some(s) = v.as_str() {
        return s.as_bytes().to_vec();
    }
    vec![]
}

pub fn files_json(f: &Files) -> Value {
    Value::Object(f.iter().map(|(k, v)| (k.clone(), bytes_json(v))).collect())
}

pub fn files_from_json(v: &Value) -> Files {
    v.as_object().map(|m| m.iter().map(|(k, v)| (k.clone(), bytes_from_json(v))).collect()).unwrap_or_default()
}

pub fn show(b: &[u8]) -> String {
    let s = String::from_utf8_lossy(b);
    let s = format!("{s:?}");
    if s.len() > 400 {
        format!("{}…(len {})", &s[..s.char_indices().nth(380).map(|x| x.0).unwrap_or(s.len())], b.len())
    } else {
        s
    }
}

// ---------------------------------------------------------------------------------- scratch

pub fn scratch_base() -> PathBuf {
    PathBuf::from(std::env::var("VERIF_SCRATCH").unwrap_or_else(|_| "/dev/shm".into()))
}

/// A per-process scratch root, removed on drop
pub struct Scratch {
    pub root: PathBuf,
    n: std::cell::Cell<u64>,
}

impl Scratch {
    pub fn new(tag: &str) -> Self {
        let root = scratch_base().join(format!("txtpp-verif.{}.{}", std::process::id(), tag));
        let _ = std::fs::remove_dir_all(&root);
        std::fs::create_dir_all(&root).expect("create scratch root");
        let root = root.canonicalize().expect("canonicalize scratch");
        Self { root, n: std::cell::Cell::new(0) }
    }
    /// a fresh empty directory
    pub fn fresh(&self) -> PathBuf {
        let k = self.n.get();
        self.n.set(k + 1);
        let p = self.root.join(format!("c{k}"));
        let _ = std::fs::remove_dir_all(&p);
        std::fs::create_dir_all(&p).expect("create case dir");
        p
    }
    /// the same directory, emptied (path-dependent outputs stay comparable)
    pub fn reuse(&self, p: &Path) {
        let _ = std::fs::remove_dir_all(p);
        std::fs::create_dir_all(p).expect("create case dir");
    }
    pub fn discard(&self, p: &Path) {
        let _ = std::fs::remove_dir_all(p);
    }
}

impl Drop for Scratch {
    fn drop(&mut self) {
        let _ = std::env::set_current_dir("/");
        let _ = std::fs::remove_dir_all(&self.root);
    }
}

/// Write a project tree below `root` (directories created as needed)
pub fn materialize(root: &Path, files: &Files, dirs: &[String]) {
    for d in dirs {
        let _ = std::fs::create_dir_all(root.join(d));
    }
    for (p, c) in files {
        let fp = root.join(p);
        if let Some(parent) = fp.parent() {
            let _ = std::fs::create_dir_all(parent);
        }
        std::fs::write(&fp, c).unwrap_or_else(|e| panic!("write {}: {e}", fp.display()));
    }
}

// ---------------------------------------------------------------------------------- snapshots

#[derive(Debug, Clone, PartialEq)]
pub struct Entry {
    pub bytes: Vec<u8>,
    pub ino: u64,
    pub mtime_ns: i128,
    pub mode: u32,
    pub is_symlink: bool,
}

#[derive(Debug, Clone, PartialEq, Default)]
pub struct Snap {
    pub files: BTreeMap<String, Entry>,
    pub dirs: BTreeSet<String>,
}

pub fn snap(root: &Path) -> Snap {
    fn walk(d: &Path, root: &Path, out: &mut Snap) {
        let rd = match std::fs::read_dir(d) {
            Ok(r) => r,
            Err(_) => return,
        };
        for e in rd.flatten() {
            let p = e.path();
            let rel = p.strip_prefix(root).unwrap().to_string_lossy().to_string();
            let md = match std::fs::symlink_metadata(&p) {
                Ok(m) => m,
                Err(_) => continue,
            };
            if md.is_dir() {
                out.dirs.insert(rel);
                walk(&p, root, out);
            } else {
                let is_symlink = md.file_type().is_symlink();
                let bytes = if is_symlink { std::fs::read_link(&p).map(|t| t.to_string_lossy().as_bytes().to_vec()).unwrap_or_default() } else { std::fs::read(&p).unwrap_or_default() };
                out.files.insert(rel, Entry { bytes, ino: md.ino(), mtime_ns: md.mtime() as i128 * 1_000_000_000 + md.mtime_nsec() as i128, mode: md.mode(), is_symlink });
            }
        }
    }
    let mut s = Snap::default();
    walk(root, root, &mut s);
    s
}

impl Snap {
    pub fn bytes(&self) -> Files {
        self.files.iter().map(|(k, v)| (k.clone(), v.bytes.clone())).collect()
    }
}

#[derive(Debug, Clone, Default, PartialEq)]
pub struct Diff {
    pub created: Vec<String>,
    pub deleted: Vec<String>,
    pub content: Vec<String>,
    /// same bytes but inode or mtime changed (rewritten / touched)
    pub touched: Vec<String>,
    pub dirs_created: Vec<String>,
    pub dirs_deleted: Vec<String>,
}

impl Diff {
    pub fn is_empty(&self) -> bool {
        self.created.is_empty() && self.deleted.is_empty() && self.content.is_empty() && self.touched.is_empty() && self.dirs_created.is_empty() && self.dirs_deleted.is_empty()
    }
    pub fn all_paths(&self) -> Vec<String> {
        let mut v: Vec<String> = vec![];
        v.extend(self.created.iter().cloned());
        v.extend(self.deleted.iter().cloned());
        v.extend(self.content.iter().cloned());
        v.extend(self.touched.iter().cloned());
        v
    }
}

pub fn diff(a: &Snap, b: &Snap) -> Diff {
    let mut d = Diff::default();
    for (k, v) in &b.files {
        match a.files.get(k) {
            None => d.created.push(k.clone()),
            Some(o) => {
                if o.bytes != v.bytes || o.is_symlink != v.is_symlink {
                    d.content.push(k.clone())
                } else if o.ino != v.ino || o.mtime_ns != v.mtime_ns || o.mode != v.mode {
                    d.touched.push(k.clone())
                }
            }
        }
    }
    for k in a.files.keys() {
        if !b.files.contains_key(k) {
            d.deleted.push(k.clone());
        }
    }
    for k in &b.dirs {
        if !a.dirs.contains(k) {
            d.dirs_created.push(k.clone());
        }
    }
    for k in &a.dirs {
        if !b.dirs.contains(k) {
            d.dirs_deleted.push(k.clone());
        }
    }
    d
}

/// Set every regular file's mtime to a sentinel (2001-01-01 + per-file offset) so that a rewrite
/// is visible regardless of timestamp granularity.
pub fn set_sentinels(root: &Path) {
    let s = snap(root);
    for (i, (p, e)) in s.files.iter().enumerate() {
        if e.is_symlink {
            continue;
        }
        let t: SystemTime = UNIX_EPOCH + Duration::from_secs(978_307_200 + i as u64);
        if let Ok(f) = std::fs::OpenOptions::new().write(true).open(root.join(p)) {
            let _ = f.set_modified(t);
        }
    }
}

pub fn now_s() -> f64 {
    SystemTime::now().duration_since(UNIX_EPOCH).map(|d| d.as_secs_f64()).unwrap_or(0.0)
}
