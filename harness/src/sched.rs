//! E3: schedule controller, event log and logical deadlock predicate (DESIGN §4.5).
//!
//! One `Ctl` is installed per process through `txtpp::verif::install`. Before every
//! `Txtpp::run` the harness `arm`s it with a `Spec`; the hooks then either only log
//! (Natural), log + delay + remove the idle sleeps (Free) or serialise the execution
//! at gate granularity and let a strategy pick every step (Controlled).

use std::collections::HashMap;
use std::path::{Path, PathBuf};
use std::sync::mpsc::Sender;
use std::sync::{Arc, Condvar, Mutex, MutexGuard};
use txtpp::verif::{Controller, Received, TaskKind};

#[derive(Debug, Clone, PartialEq)]
pub enum Event {
    RunBegin(usize),
    Spawn { id: u64, kind: TaskKind, path: PathBuf },
    Begin(u64),
    Ready(u64, bool),
    End(u64, bool),
    Poll { done: usize, total: usize },
    Recv(Received),
    Io(&'static str, PathBuf),
    RunEnd(bool),
    Dropped,
    Deadlock { done: usize, total: usize },
}

#[derive(Debug, Clone)]
pub enum Strategy {
    /// follow the prefix, then always take option 0
    Dfs(Vec<(u32, u32)>),
    /// uniformly random option
    Random(u64),
    /// fixed preference order of step kinds
    Fixed(FixedOrder),
}

#[derive(Debug, Clone, Copy, PartialEq)]
pub enum FixedOrder {
    /// run everything that can run before any result is sent; sends newest first; receive last
    RunFirstLifo,
    /// receive as early as possible, send oldest first
    RecvFirstFifo,
    /// always delay tasks of files that something depends on (lexicographically largest path last)
    DepsLast,
}

#[derive(Debug, Clone)]
pub enum Spec {
    /// hooks only record
    Natural { delay: Option<(u64, u64)> },
    /// record, seeded delays, and block the coordinator at poll until a result is pending or
    /// nothing is in flight (removes txtpp's 100 ms idle sleeps)
    Free { delay: Option<(u64, u64)> },
    /// gate-controlled
    /// `eager_recv`: the coordinator receives as soon as a result is pending (its own steps commute
    /// with every task step; only the *order of sends* and of task runs is explored)
    Controlled { strategy: Strategy, early_poll_at: Option<u32>, eager_recv: bool },
}

#[derive(Debug, Clone, Copy, PartialEq)]
enum Phase {
    Queued,
    AtBegin,
    Running,
    AtEnd,
    Sending,
    Ended,
}

#[derive(Debug, Clone)]
struct TaskInfo {
    kind: TaskKind,
    path: PathBuf,
    occ: u32,
    phase: Phase,
    release_begin: bool,
    release_end: bool,
}

#[derive(Debug, Clone, PartialEq)]
enum Step {
    Recv,
    Send(u64),
    Run(u64),
    EarlyPoll,
}

pub enum Signal {
    Deadlock,
    /// the same directory was queued for scanning more than `RESCAN_LIMIT` times in one run
    Livelock,
}

/// A correct run scans a directory at most a handful of times (once per spelling among the
/// inputs); beyond this bound the run is rescanning in a loop and can never finish.
pub const RESCAN_LIMIT: u32 = 64;
/// A channel send on the unchanged code (unbounded queue) completes in microseconds. When a worker
/// stays inside `send` for `BACKPRESSURE_SLICES` x `BACKPRESSURE_SLICE` while results are pending, the
/// controller stops holding the coordinator (see `coordinator_poll`).
const BACKPRESSURE_SLICE: std::time::Duration = std::time::Duration::from_millis(50);
const BACKPRESSURE_SLICES: u32 = 8;

struct State {
    epoch: u64,
    spec: Spec,
    threads: usize,
    tasks: Vec<TaskInfo>,
    events: Vec<Event>,
    ended: u64,
    panicked: u64,
    received: u64,
    run_ended: bool,
    deadlock: bool,
    livelock: bool,
    rng: u64,
    choice_log: Vec<(u32, u32)>,
    choice_points: u32,
    diverged: u32,
    early_polls: u32,
    forced_recvs: u32,
    held_at_begin: bool,
    max_parked: usize,
    signal: Option<Sender<Signal>>,
    log_events: bool,
    last_event: std::time::Instant,
    dropped: bool,
    /// set when the coordinator polled with nothing in flight, nothing pending and done == total:
    /// it is about to leave its loop, `run_end` must follow
    final_poll: Option<std::time::Instant>,
    last_poll: Option<(usize, usize)>,
}

pub struct Ctl {
    st: Mutex<State>,
    cv: Condvar,
}

/// What one armed run produced
#[derive(Debug, Clone, Default)]
pub struct Trace {
    pub events: Vec<Event>,
    pub deadlock: bool,
    pub panicked_tasks: u64,
    pub choice_log: Vec<(u32, u32)>,
    pub diverged: u32,
    pub early_polls: u32,
    /// receive steps the controller had to concede because a worker was blocked inside `send`
    pub forced_recvs: u32,
    pub held_at_begin: bool,
    pub max_parked: usize,
    pub spawned: u64,
    pub received: u64,
}

thread_local! {
    /// epoch of the run whose coordinator this thread is
    static COORD_EPOCH: std::cell::Cell<u64> = const { std::cell::Cell::new(0) };
}

fn lock<T>(m: &Mutex<T>) -> MutexGuard<'_, T> {
    match m.lock() {
        Ok(g) => g,
        Err(e) => e.into_inner(),
    }
}

fn xorshift(x: &mut u64) -> u64 {
    *x ^= *x << 13;
    *x ^= *x >> 7;
    *x ^= *x << 17;
    *x
}

impl Ctl {
    pub fn new() -> Arc<Self> {
        Arc::new(Self {
            st: Mutex::new(State {
                epoch: 0,
                spec: Spec::Natural { delay: None },
                threads: 1,
                tasks: vec![],
                events: vec![],
                ended: 0,
                panicked: 0,
                received: 0,
                run_ended: true,
                deadlock: false,
                livelock: false,
                rng: 1,
                choice_log: vec![],
                choice_points: 0,
                diverged: 0,
                early_polls: 0,
                forced_recvs: 0,
                held_at_begin: false,
                max_parked: 0,
                signal: None,
                log_events: true,
                last_event: std::time::Instant::now(),
                dropped: false,
                final_poll: None,
                last_poll: None,
            }),
            cv: Condvar::new(),
        })
    }

    /// Prepare for the next run. Threads leaked by a previous (deadlocked) run stay parked.
    pub fn arm(&self, spec: Spec, signal: Sender<Signal>, log_events: bool) {
        let mut s = lock(&self.st);
        s.epoch += 1;
        s.rng = match &spec {
            Spec::Natural { delay: Some((seed, _)) } | Spec::Free { delay: Some((seed, _)) } => seed.wrapping_mul(0x9E37_79B9_7F4A_7C15) | 1,
            Spec::Controlled { strategy: Strategy::Random(seed), .. } => seed.wrapping_mul(0x9E37_79B9_7F4A_7C15) | 1,
            _ => 0x1234_5678_9abc_def1,
        };
        s.spec = spec;
        s.threads = 1;
        s.tasks.clear();
        s.events.clear();
        s.ended = 0;
        s.panicked = 0;
        s.received = 0;
        s.run_ended = false;
        s.deadlock = false;
        s.livelock = false;
        s.choice_log.clear();
        s.choice_points = 0;
        s.diverged = 0;
        s.early_polls = 0;
        s.forced_recvs = 0;
        s.held_at_begin = false;
        s.max_parked = 0;
        s.signal = Some(signal);
        s.log_events = log_events;
        s.last_event = std::time::Instant::now();
        s.dropped = false;
        s.final_poll = None;
        s.last_poll = None;
    }

    /// Collect what the run produced
    pub fn disarm(&self) -> Trace {
        let mut s = lock(&self.st);
        s.run_ended = true;
        s.signal = None;
        self.cv.notify_all();
        Trace {
            events: std::mem::take(&mut s.events),
            deadlock: s.deadlock,
            panicked_tasks: s.panicked,
            choice_log: std::mem::take(&mut s.choice_log),
            diverged: s.diverged,
            early_polls: s.early_polls,
            forced_recvs: s.forced_recvs,
            held_at_begin: s.held_at_begin,
            max_parked: s.max_parked,
            spawned: s.tasks.len() as u64,
            received: s.received,
        }
    }

    /// Bounded-progress predicate for the shutdown phase: the coordinator left its loop, tasks are
    /// still in flight, every one of them that occupies a worker is *inside the channel send*
    /// (between `result_ready` and the end of the closure), and no hook event at all has been seen
    /// for `quiet`. With an unbounded channel that state lasts microseconds; if it persists, the
    /// workers are blocked in `send` while `Drop` joins the pool: the run can never return.
    pub fn stuck_in_send(&self, quiet: std::time::Duration) -> bool {
        let s = lock(&self.st);
        if !s.run_ended {
            // the coordinator saw "everything done" at its last poll and must now leave the loop,
            // run the post-loop checks and return; nothing else is alive. If `run_end` does not
            // follow within `quiet`, it is spinning after the loop (e.g. while formatting an error)
            return matches!(s.final_poll, Some(t) if t.elapsed() >= quiet) && Self::in_flight(&s) == 0;
        }
        if s.dropped || s.last_event.elapsed() < quiet {
            return false;
        }
        if Self::in_flight(&s) == 0 {
            // every task ended, the coordinator is alone in `Drop` (join returns at once, the drain
            // loop polls every 100 ms): if it has not finished after `quiet`, nothing can ever
            // change the counters it is waiting for
            return true;
        }
        let mut sending = 0;
        for t in &s.tasks {
            match t.phase {
                Phase::Sending => sending += 1,
                Phase::Queued | Phase::Ended => {}
                _ => return false,
            }
        }
        sending > 0
    }

    /// Bounded-progress predicate for a single task: the run is still in its loop, some task is
    /// between `begin` and `result_ready` (it runs the preprocessor, possibly waiting for a command),
    /// and no hook event at all has been seen for `quiet`. Every command the workloads use finishes
    /// in milliseconds (at most ~1 s for the deliberately slow ones), so a task that shows no
    /// progress for `quiet` is stuck (e.g. blocked on a pipe nobody drains).
    pub fn stuck_task(&self, quiet: std::time::Duration) -> bool {
        let s = lock(&self.st);
        !s.run_ended && s.last_event.elapsed() >= quiet && s.tasks.iter().any(|t| t.phase == Phase::Running) && !s.tasks.iter().any(|t| matches!(t.phase, Phase::AtBegin | Phase::AtEnd) && (t.release_begin || t.release_end))
    }

    /// number of tasks that were spawned and have not ended yet (meaningful right after a run returned)
    pub fn in_flight_now(&self) -> u64 {
        let s = lock(&self.st);
        Self::in_flight(&s)
    }

    /// Open every gate (used when some thread panics, so that `Drop`'s join cannot block)
    pub fn open_gates(&self) {
        let mut s = lock(&self.st);
        s.run_ended = true;
        self.cv.notify_all();
    }

    fn ev(s: &mut State, e: Event) {
        s.last_event = std::time::Instant::now();
        if s.log_events {
            s.events.push(e);
        }
    }

    fn delay(&self, s: MutexGuard<'_, State>) {
        let mut s = s;
        let d = match &s.spec {
            Spec::Natural { delay: Some((_, max)) } | Spec::Free { delay: Some((_, max)) } if *max > 0 => {
                let max = *max;
                xorshift(&mut s.rng) % max
            }
            _ => 0,
        };
        drop(s);
        if d > 0 {
            std::thread::sleep(std::time::Duration::from_micros(d));
        }
    }

    fn park_forever() -> ! {
        loop {
            std::thread::park();
        }
    }

    fn key(t: &TaskInfo) -> (PathBuf, u8, u32) {
        let k = match t.kind {
            TaskKind::ScanDir => 0,
            TaskKind::FirstPass => 1,
            TaskKind::FinalPass => 2,
        };
        (t.path.clone(), k, t.occ)
    }

    fn in_flight(s: &State) -> u64 {
        s.tasks.len() as u64 - s.ended
    }
    fn pending(s: &State) -> u64 {
        // results sent (task ended without panic) and not yet received
        s.ended - s.panicked - s.received
    }

    fn only_senders_busy(s: &State) -> bool {
        s.tasks.iter().any(|t| t.phase == Phase::Sending) && !s.tasks.iter().any(|t| t.phase == Phase::Running || (t.phase == Phase::AtBegin && t.release_begin) || (t.phase == Phase::AtEnd && t.release_end))
    }

    fn quiescent(s: &State) -> bool {
        let mut parked = 0;
        for t in &s.tasks {
            match t.phase {
                Phase::Running | Phase::Sending => return false,
                Phase::AtBegin if t.release_begin => return false,
                Phase::AtEnd if t.release_end => return false,
                Phase::AtBegin | Phase::AtEnd => parked += 1,
                _ => {}
            }
        }
        parked == (Self::in_flight(s) as usize).min(s.threads)
    }

    fn options(s: &State) -> Vec<Step> {
        let mut o = vec![];
        if Self::pending(s) > 0 {
            o.push(Step::Recv);
            if matches!(s.spec, Spec::Controlled { eager_recv: true, .. }) {
                return o;
            }
        }
        let mut sends: Vec<(_, u64)> = vec![];
        let mut runs: Vec<(_, u64)> = vec![];
        for (i, t) in s.tasks.iter().enumerate() {
            match t.phase {
                Phase::AtEnd => sends.push((Self::key(t), i as u64)),
                Phase::AtBegin => runs.push((Self::key(t), i as u64)),
                _ => {}
            }
        }
        sends.sort();
        runs.sort();
        o.extend(sends.into_iter().map(|(_, i)| Step::Send(i)));
        o.extend(runs.into_iter().map(|(_, i)| Step::Run(i)));
        o
    }

    fn choose(s: &mut State, opts: &[Step]) -> usize {
        let n = opts.len();
        if n == 1 {
            return 0;
        }
        let idx = s.choice_log.len();
        let k = match &s.spec {
            Spec::Controlled { strategy: Strategy::Dfs(prefix), .. } => {
                if idx < prefix.len() {
                    let (c, en) = prefix[idx];
                    if en as usize != n {
                        s.diverged += 1;
                    }
                    (c as usize).min(n - 1)
                } else {
                    0
                }
            }
            Spec::Controlled { strategy: Strategy::Random(_), .. } => (xorshift(&mut s.rng) % n as u64) as usize,
            Spec::Controlled { strategy: Strategy::Fixed(f), .. } => {
                let rank = |st: &Step| -> (i64, i64) {
                    match (f, st) {
                        (FixedOrder::RunFirstLifo, Step::Run(i)) => (0, *i as i64),
                        (FixedOrder::RunFirstLifo, Step::Send(i)) => (1, -(*i as i64)),
                        (FixedOrder::RunFirstLifo, Step::Recv) => (2, 0),
                        (FixedOrder::RecvFirstFifo, Step::Recv) => (0, 0),
                        (FixedOrder::RecvFirstFifo, Step::Send(i)) => (1, *i as i64),
                        (FixedOrder::RecvFirstFifo, Step::Run(i)) => (2, *i as i64),
                        (FixedOrder::DepsLast, Step::Recv) => (1, 0),
                        (FixedOrder::DepsLast, Step::Run(i)) | (FixedOrder::DepsLast, Step::Send(i)) => {
                            // smaller file index (f0 is the top depender in generated graphs) first
                            let name = s.tasks[*i as usize].path.file_name().map(|x| x.to_string_lossy().to_string()).unwrap_or_default();
                            let digit = name.chars().find(|c| c.is_ascii_digit()).map(|c| c as i64).unwrap_or(0);
                            (if matches!(st, Step::Run(_)) { 0 } else { 2 }, digit)
                        }
                        (_, Step::EarlyPoll) => (9, 0),
                    }
                };
                let mut best = 0;
                for i in 1..n {
                    if rank(&opts[i]) < rank(&opts[best]) {
                        best = i;
                    }
                }
                best
            }
            _ => 0,
        };
        s.choice_log.push((k as u32, n as u32));
        k
    }

    fn check_deadlock(&self, mut s: MutexGuard<'_, State>, done: usize, total: usize) {
        if Self::in_flight(&s) == 0 && Self::pending(&s) == 0 && done != total && !s.run_ended {
            s.deadlock = true;
            Self::ev(&mut s, Event::Deadlock { done, total });
            if let Some(sig) = &s.signal {
                let _ = sig.send(Signal::Deadlock);
            }
            drop(s);
            Self::park_forever();
        }
    }
}

impl Controller for Ctl {
    fn run_begin(&self, threads: usize) {
        let mut s = lock(&self.st);
        COORD_EPOCH.with(|c| c.set(s.epoch));
        s.threads = threads.max(1);
        Self::ev(&mut s, Event::RunBegin(threads));
    }

    fn run_end(&self, ok: bool) {
        let mut s = lock(&self.st);
        if COORD_EPOCH.with(|c| c.get()) != s.epoch {
            return;
        }
        s.run_ended = true;
        Self::ev(&mut s, Event::RunEnd(ok));
        self.cv.notify_all();
    }

    fn run_dropped(&self) {
        let mut s = lock(&self.st);
        if COORD_EPOCH.with(|c| c.get()) != s.epoch {
            return;
        }
        s.dropped = true;
        Self::ev(&mut s, Event::Dropped);
    }

    fn task_spawned(&self, kind: TaskKind, path: &Path) -> u64 {
        let mut s = lock(&self.st);
        s.final_poll = None;
        let id = (s.epoch << 32) | s.tasks.len() as u64;
        let occ = s.tasks.iter().filter(|t| t.kind == kind && t.path == path).count() as u32;
        if kind == TaskKind::ScanDir && occ >= RESCAN_LIMIT && !s.run_ended {
            s.livelock = true;
            Self::ev(&mut s, Event::Deadlock { done: 0, total: occ as usize });
            if let Some(sig) = &s.signal {
                let _ = sig.send(Signal::Livelock);
            }
            drop(s);
            Self::park_forever(); // the coordinator stops here; the harness abandons the run
        }
        s.tasks.push(TaskInfo { kind, path: path.to_path_buf(), occ, phase: Phase::Queued, release_begin: false, release_end: false });
        Self::ev(&mut s, Event::Spawn { id: id & 0xffff_ffff, kind, path: path.to_path_buf() });
        self.cv.notify_all();
        id
    }

    fn task_begin(&self, id: u64) {
        let mut s = lock(&self.st);
        let epoch = s.epoch;
        if id >> 32 != epoch {
            drop(s);
            Self::park_forever();
        }
        let i = (id & 0xffff_ffff) as usize;
        if i >= s.tasks.len() {
            return;
        }
        s.tasks[i].phase = Phase::AtBegin;
        self.cv.notify_all();
        if matches!(s.spec, Spec::Controlled { .. }) {
            while !(s.run_ended || s.tasks.get(i).map(|t| t.release_begin).unwrap_or(true)) {
                s = match self.cv.wait(s) {
                    Ok(g) => g,
                    Err(e) => e.into_inner(),
                };
                if s.epoch != epoch {
                    drop(s);
                    Self::park_forever();
                }
            }
        }
        if s.epoch != epoch {
            drop(s);
            Self::park_forever();
        }
        s.tasks[i].phase = Phase::Running;
        Self::ev(&mut s, Event::Begin(i as u64));
        self.delay(s);
    }

    fn task_result_ready(&self, id: u64, ok: bool) {
        let mut s = lock(&self.st);
        let epoch = s.epoch;
        if id >> 32 != epoch {
            drop(s);
            Self::park_forever();
        }
        let i = (id & 0xffff_ffff) as usize;
        if i >= s.tasks.len() {
            return;
        }
        s.tasks[i].phase = Phase::AtEnd;
        Self::ev(&mut s, Event::Ready(i as u64, ok));
        self.cv.notify_all();
        if matches!(s.spec, Spec::Controlled { .. }) {
            while !(s.run_ended || s.tasks.get(i).map(|t| t.release_end).unwrap_or(true)) {
                s = match self.cv.wait(s) {
                    Ok(g) => g,
                    Err(e) => e.into_inner(),
                };
                if s.epoch != epoch {
                    drop(s);
                    Self::park_forever();
                }
            }
        }
        if s.epoch != epoch {
            drop(s);
            Self::park_forever();
        }
        s.tasks[i].phase = Phase::Sending;
        s.last_event = std::time::Instant::now();
        self.delay(s);
    }

    fn task_end(&self, id: u64, panicked: bool) {
        let mut s = lock(&self.st);
        if id >> 32 != s.epoch {
            return;
        }
        let i = (id & 0xffff_ffff) as usize;
        if i >= s.tasks.len() || s.tasks[i].phase == Phase::Ended {
            return;
        }
        s.tasks[i].phase = Phase::Ended;
        s.ended += 1;
        if panicked {
            s.panicked += 1;
        }
        Self::ev(&mut s, Event::End(i as u64, panicked));
        self.cv.notify_all();
    }

    fn result_received(&self, received: &Received) {
        let mut s = lock(&self.st);
        if COORD_EPOCH.with(|c| c.get()) != s.epoch {
            drop(s);
            Self::park_forever();
        }
        s.received += 1;
        Self::ev(&mut s, Event::Recv(received.clone()));
    }

    fn io_point(&self, name: &'static str, path: &Path) {
        let mut s = lock(&self.st);
        Self::ev(&mut s, Event::Io(name, path.to_path_buf()));
    }

    fn coordinator_poll(&self, done: usize, total: usize) {
        let mut s = lock(&self.st);
        if COORD_EPOCH.with(|c| c.get()) != s.epoch {
            drop(s);
            Self::park_forever();
        }
        if s.run_ended {
            return;
        }
        let epoch = s.epoch;
        // time of the *first* poll that saw "everything done, nothing in flight, nothing pending": the
        // loop must leave right after it; polls that keep coming in that state mean it is spinning
        s.final_poll = if Self::in_flight(&s) == 0 && Self::pending(&s) == 0 && done == total { s.final_poll.or(Some(std::time::Instant::now())) } else { None };
        // compress runs of identical polls
        // (a poll that repeats the previous one is not progress: it must not reset the quiet timer
        // of the bounded-progress predicates, whether or not events are being recorded)
        if s.last_poll != Some((done, total)) {
            s.last_poll = Some((done, total));
            Self::ev(&mut s, Event::Poll { done, total });
        }
        match s.spec.clone() {
            Spec::Natural { .. } => {
                if Self::in_flight(&s) == 0 && Self::pending(&s) == 0 {
                    self.check_deadlock(s, done, total);
                } else {
                    self.delay(s);
                }
            }
            Spec::Free { .. } => {
                while !(Self::pending(&s) > 0 || Self::in_flight(&s) == 0) {
                    s = match self.cv.wait(s) {
                        Ok(g) => g,
                        Err(e) => e.into_inner(),
                    };
                    if s.epoch != epoch {
                        drop(s);
                        Self::park_forever();
                    }
                }
                if Self::pending(&s) == 0 {
                    self.check_deadlock(s, done, total);
                } else {
                    self.delay(s);
                }
            }
            Spec::Controlled { early_poll_at, .. } => loop {
                let mut waited = 0u32;
                while !Self::quiescent(&s) {
                    s = match self.cv.wait_timeout(s, BACKPRESSURE_SLICE) {
                        Ok((g, _)) => g,
                        Err(e) => e.into_inner().0,
                    };
                    if s.epoch != epoch {
                        drop(s);
                        Self::park_forever();
                    }
                    waited += 1;
                    if waited >= BACKPRESSURE_SLICES && Self::pending(&s) > 0 && Self::only_senders_busy(&s) {
                        // a worker has been inside `send` for a long time while results are waiting to
                        // be received: the channel exerts back-pressure (bounded queue). Holding the
                        // coordinator here would be a deadlock of the controller's own making, so let
                        // it receive (an unrecorded, forced receive step).
                        s.forced_recvs += 1;
                        return;
                    }
                }
                let mut opts = Self::options(&s);
                let parked = s.tasks.iter().filter(|t| matches!(t.phase, Phase::AtBegin | Phase::AtEnd)).count();
                s.max_parked = s.max_parked.max(parked);
                if opts.is_empty() {
                    // nothing in flight, nothing pending
                    self.check_deadlock(s, done, total);
                    return;
                }
                s.choice_points += 1;
                if early_poll_at == Some(s.choice_points) && Self::pending(&s) == 0 && s.early_polls == 0 {
                    opts = vec![Step::EarlyPoll];
                }
                let k = Self::choose(&mut s, &opts);
                match opts[k].clone() {
                    Step::Recv => return,
                    Step::EarlyPoll => {
                        s.early_polls += 1;
                        return;
                    }
                    Step::Run(id) => {
                        let i = id as usize;
                        if s.tasks.iter().any(|t| t.phase == Phase::AtBegin && !std::ptr::eq(t, &s.tasks[i])) {
                            s.held_at_begin = true;
                        }
                        s.tasks[i].release_begin = true;
                        self.cv.notify_all();
                        while !matches!(s.tasks[i].phase, Phase::AtEnd | Phase::Ended) {
                            s = match self.cv.wait(s) {
                                Ok(g) => g,
                                Err(e) => e.into_inner(),
                            };
                            if s.epoch != epoch {
                                drop(s);
                                Self::park_forever();
                            }
                        }
                    }
                    Step::Send(id) => {
                        let i = id as usize;
                        s.tasks[i].release_end = true;
                        self.cv.notify_all();
                        let mut waited = 0u32;
                        while s.tasks[i].phase != Phase::Ended {
                            s = match self.cv.wait_timeout(s, BACKPRESSURE_SLICE) {
                                Ok((g, _)) => g,
                                Err(e) => e.into_inner().0,
                            };
                            if s.epoch != epoch {
                                drop(s);
                                Self::park_forever();
                            }
                            waited += 1;
                            if waited >= BACKPRESSURE_SLICES && Self::pending(&s) > 0 && s.tasks[i].phase == Phase::Sending {
                                s.forced_recvs += 1; // see above: the send waits for the coordinator to receive
                                return;
                            }
                        }
                    }
                }
            },
        }
    }
}

/// Per-file counts derived from a trace (T3)
pub fn done_counts(events: &[Event]) -> HashMap<PathBuf, u32> {
    let mut m = HashMap::new();
    for e in events {
        if let Event::Recv(Received::Done { file }) = e {
            *m.entry(file.clone()).or_insert(0) += 1;
        }
    }
    m
}

/// Order-sensitive hash of a trace (distinct interleavings seen)
pub fn trace_hash(events: &[Event]) -> u64 {
    use std::hash::{Hash, Hasher};
    let mut h = std::collections::hash_map::DefaultHasher::new();
    for e in events {
        match e {
            Event::Spawn { kind, path, .. } => (0u8, *kind as u8, path).hash(&mut h),
            Event::Begin(id) => (1u8, id).hash(&mut h),
            Event::Ready(id, ok) => (2u8, id, ok).hash(&mut h),
            Event::End(id, p) => (3u8, id, p).hash(&mut h),
            Event::Recv(r) => (4u8, format!("{r:?}")).hash(&mut h),
            Event::RunEnd(ok) => (5u8, ok).hash(&mut h),
            Event::Deadlock { .. } => 6u8.hash(&mut h),
            _ => {}
        }
    }
    h.finish()
}
