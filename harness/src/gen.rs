use rand::rngs::StdRng;
use rand::{Rng, SeedableRng};
use std::collections::BTreeMap;

pub struct Case {
    pub files: BTreeMap<String, Vec<u8>>,
    pub trailing: bool,
}

const DIRS: [&str; 4] = ["", "sub", "sub/deep", "other"];
const STATIC: [(&str, &str); 6] = [
    ("inc_nl.txt", "alpha\nbeta\n"),
    ("inc_nonl.txt", "gamma"),
    ("inc_crlf.txt", "c1\r\nc2\r\n"),
    ("inc_empty.txt", ""),
    ("inc_multi.txt", "m1\n\nm3\n\n"),
    ("inc_look.txt", "-TXTPP#run echo no\nTAG1\n"),
];
const PREFIXES: [&str; 7] = ["-", "// ", "/* ", "<!-- ", "\u{a7} ", "#", "-- \t"];
const WS: [&str; 5] = ["", "  ", "\t", "    ", " \t "];
const TEXTS: [&str; 22] = [
    "", "plain text", "  indented text", "trailing blanks  ", "TXTPP#nonext", "x TXTPP#inclde y", "-TXTPP#run\tfoo", "TXTPP", "# TXTPP #run",
    "use TAG1 here", "TAG2TAG1", "XY and TAG1 and XY", "\u{e9}t\u{e9} \u{2713}", "-", "//", "   ", "\t", "- dash text", "// comment text", "a TXTPP#foo TXTPP#run echo hidden",
    "TAG", "end.",
];
const OUTS: [&str; 9] = ["", "x", "x\\n", "x\\n\\n", "a\\nb\\n", "a\\r\\nb\\r\\n", "  lead\\n", "TAG1", "\\n"];
const TAGS: [&str; 4] = ["TAG1", "TAG2", "XY", "TAG"];

pub fn rel(from_dir: &str, to: &str) -> String {
    // relative path from directory `from_dir` to file `to` (both relative to root)
    let f: Vec<&str> = if from_dir.is_empty() { vec![] } else { from_dir.split('/').collect() };
    let t: Vec<&str> = to.split('/').collect();
    let mut k = 0;
    while k < f.len() && k + 1 < t.len() && f[k] == t[k] {
        k += 1;
    }
    let mut parts: Vec<String> = vec![];
    for _ in k..f.len() {
        parts.push("..".into());
    }
    for x in &t[k..] {
        parts.push(x.to_string());
    }
    parts.join("/")
}

pub fn gen(seed: u64) -> Case {
    let mut r = StdRng::seed_from_u64(seed);
    let mut files: BTreeMap<String, Vec<u8>> = BTreeMap::new();
    // static files in every dir
    for d in DIRS {
        for (n, c) in STATIC {
            let p = if d.is_empty() { n.to_string() } else { format!("{d}/{n}") };
            files.insert(p, c.as_bytes().to_vec());
        }
    }
    let nsrc = r.gen_range(1..=3);
    let shapes = ["{}.txt.txtpp", "{}.txtpp", "{}.txtpp.md", "{}.a.b.txtpp"];
    let mut srcs: Vec<(String, String)> = vec![]; // (source path, output path)
    for i in 0..nsrc {
        let d = DIRS[r.gen_range(0..DIRS.len())];
        let shape = shapes[r.gen_range(0..shapes.len())];
        let name = shape.replace("{}", &format!("s{i}"));
        let p = if d.is_empty() { name.clone() } else { format!("{d}/{name}") };
        let out = crate::model::output_of(&p).unwrap();
        srcs.push((p, out));
    }
    for i in 0..nsrc {
        let (p, _) = srcs[i].clone();
        let dir = crate::model::dir_of(&p).to_string();
        let deps: Vec<String> = srcs[i + 1..].iter().map(|s| s.1.clone()).collect();
        let is_dep = i > 0;
        let body = gen_source(&mut r, &dir, &deps, is_dep, i);
        files.insert(p, body.into_bytes());
    }
    Case { files, trailing: r.gen_bool(0.6) }
}

fn gen_source(r: &mut StdRng, dir: &str, deps: &[String], is_dep: bool, idx: usize) -> String {
    let crlf = r.gen_bool(0.25);
    let mixed = r.gen_bool(0.1);
    let n = r.gen_range(0..=10);
    let mut ls: Vec<String> = vec![];
    let mut tmpn = 0;
    for _ in 0..n {
        let k = r.gen_range(0..100);
        if k < 35 {
            ls.push(TEXTS[r.gen_range(0..TEXTS.len())].to_string());
            continue;
        }
        let ws = if r.gen_bool(0.5) { "" } else { WS[r.gen_range(0..WS.len())] };
        let pre = if r.gen_bool(0.04) { "" } else { PREFIXES[r.gen_range(0..PREFIXES.len())] };
        let head = |name: &str, arg: &str| -> String {
            if arg.is_empty() && name.len() % 2 == 0 { format!("{ws}{pre}TXTPP#{name}") } else { format!("{ws}{pre}TXTPP#{name} {arg}") }
        };
        let cont = |r: &mut StdRng, arg: &str| -> String {
            let ascii = pre.is_ascii();
            let form = r.gen_range(0..3);
            if arg.is_empty() && form == 2 {
                format!("{ws}{}", pre.trim_end_matches([' ', '\t']))
            } else if form == 1 && ascii {
                format!("{ws}{}{arg}", " ".repeat(pre.len()))
            } else {
                format!("{ws}{pre}{arg}")
            }
        };
        match k {
            35..=46 => {
                // include
                let t = r.gen_range(0..100);
                let target = if t < 40 && !deps.is_empty() {
                    rel(dir, &deps[r.gen_range(0..deps.len())])
                } else if t < 92 {
                    let d = DIRS[r.gen_range(0..DIRS.len())];
                    let f = STATIC[r.gen_range(0..STATIC.len())].0;
                    let p = if d.is_empty() { f.to_string() } else { format!("{d}/{f}") };
                    let mut x = rel(dir, &p);
                    if r.gen_bool(0.2) {
                        x = format!("./{x}");
                    }
                    x
                } else if t < 96 {
                    "missing.txt".to_string()
                } else {
                    rel(dir, "sub") + "/"
                };
                let pad = if r.gen_bool(0.2) { "  " } else { "" };
                ls.push(head("include", &format!("{pad}{target}{pad}")));
            }
            47..=50 => {
                if !deps.is_empty() {
                    ls.push(head("after", &rel(dir, &deps[r.gen_range(0..deps.len())])));
                } else {
                    ls.push(head("after", "inc_nl.txt"));
                }
            }
            51..=66 => {
                // run
                let t = r.gen_range(0..100);
                if t < 50 {
                    let o = OUTS[r.gen_range(0..OUTS.len())];
                    if r.gen_bool(0.3) {
                        ls.push(head("run", "printf"));
                        ls.push(cont(r, &format!("'{o}'")));
                    } else {
                        ls.push(head("run", &format!("printf '{o}'")));
                    }
                } else if t < 70 {
                    ls.push(head("run", "echo one   two"));
                    if r.gen_bool(0.5) {
                        ls.push(cont(r, "  three"));
                        if r.gen_bool(0.3) {
                            ls.push(cont(r, ""));
                            ls.push(cont(r, "four  "));
                        }
                    }
                } else if t < 80 {
                    ls.push(head("run", "pwd -P"));
                } else if t < 88 {
                    ls.push(head("run", "cat inc_nonl.txt"));
                } else if t < 94 {
                    ls.push(head("run", "true"));
                } else {
                    ls.push(head("run", if r.gen_bool(0.5) { "exit 3" } else { "false" }));
                }
                if r.gen_bool(0.85) {
                    ls.push(["plain text", "use TAG1 here", "end.", "x TXTPP#inclde y", "TAG"][r.gen_range(0..5)].to_string());
                }
            }
            67..=76 => {
                // temp
                tmpn += 1;
                let t = r.gen_range(0..100);
                let target = if t < 70 {
                    format!("t{idx}_{tmpn}.tmp")
                } else if t < 80 && !dir.is_empty() {
                    format!("../t{idx}_{tmpn}.tmp")
                } else if t < 88 && dir.is_empty() {
                    format!("sub/t{idx}_{tmpn}.tmp")
                } else if t < 93 {
                    format!("t{idx}_{tmpn}.txtpp")
                } else if t < 96 {
                    format!("nodir/t{idx}_{tmpn}.tmp")
                } else {
                    format!("t{idx}_{tmpn}.x.txtpp")
                };
                ls.push(head("temp", &target));
                let nb = r.gen_range(0..4);
                for _ in 0..nb {
                    let b = ["body line", "", "  indented body", "TXTPP#run echo inert", "\u{e9}"][r.gen_range(0..5)];
                    ls.push(cont(r, b));
                }
                if t < 70 && r.gen_bool(0.5) {
                    ls.push("".into());
                    if r.gen_bool(0.5) {
                        ls.push(head("include", &target));
                    } else {
                        ls.push(head("run", &format!("cat {target}")));
                    }
                }
            }
            77..=86 => {
                // tag + (maybe) producer + (maybe) use
                let tag = TAGS[r.gen_range(0..TAGS.len())];
                ls.push(head("tag", tag));
                let t = r.gen_range(0..100);
                if t < 85 {
                    if r.gen_bool(0.3) {
                        ls.push(head("", "just a comment"));
                    }
                    match r.gen_range(0..3) {
                        0 => {
                            ls.push(head("run", &format!("printf '{}'", OUTS[r.gen_range(0..OUTS.len())])));
                            if r.gen_bool(0.7) {
                                ls.push("".into());
                            }
                        }
                        1 => ls.push(head("include", ["inc_nl.txt", "inc_nonl.txt", "inc_crlf.txt"][r.gen_range(0..3)])),
                        _ => {
                            ls.push(head("write", "w1"));
                            if r.gen_bool(0.5) {
                                ls.push(cont(r, "w2"));
                                ls.push(cont(r, ""));
                            }
                        }
                    }
                    if t < 75 {
                        let u = [format!("<{tag}>"), format!("{tag}"), format!("a {tag} b {tag} c"), format!("{tag}XY")];
                        if r.gen_bool(0.3) {
                            ls.push("spacer".into());
                        }
                        ls.push(u[r.gen_range(0..u.len())].clone());
                    }
                }
            }
            87..=94 => {
                ls.push(head("write", ["w one", "TXTPP#run echo escaped", "", "TAG1 stays", "  lead is trimmed"][r.gen_range(0..5)]));
                let nb = r.gen_range(0..3);
                for _ in 0..nb {
                    let b = ["second", "", "-TXTPP#include inc_nl.txt", "  keep lead"][r.gen_range(0..4)];
                    ls.push(cont(r, b));
                }
            }
            _ => {
                ls.push(head("", ["", "*/", "-->", "note"][r.gen_range(0..4)]));
                if r.gen_bool(0.4) {
                    ls.push(cont(r, "more"));
                }
            }
        }
    }
    if is_dep {
        ls.push(format!("end of dep {idx}"));
    }
    let mut s = String::new();
    let n = ls.len();
    let final_nl = r.gen_bool(0.8);
    for (i, l) in ls.iter().enumerate() {
        s.push_str(l);
        if i + 1 < n || final_nl {
            let use_crlf = if mixed { r.gen_bool(0.5) } else { crlf };
            s.push_str(if use_crlf { "\r\n" } else { "\n" });
        }
    }
    s
}
