//! E2: generators. Source / project generator for the model-based drivers (inside the domain of
//! DESIGN §4.3), graph generator for the scheduling drivers, hostile text for C16 / C18.

use crate::model;
use crate::util::Files;
use rand::rngs::StdRng;
use rand::Rng;
use std::collections::BTreeMap;

pub const DIRS: [&str; 4] = ["", "sub", "sub/deep", "other"];
pub const STATIC: [(&str, &str); 9] = [
    ("inc_mix_lf_first.txt", "a\nb\r\nc"),
    ("inc_mix_crlf_first.txt", "a\r\nb\nc\n"),
    ("inc_nl.txt", "alpha\nbeta\n"),
    ("inc_nonl.txt", "gamma"),
    ("inc_crlf.txt", "c1\r\nc2\r\n"),
    ("inc_empty.txt", ""),
    ("inc_multi.txt", "m1\n\nm3\n\n"),
    ("inc_look.txt", "-TXTPP#run echo no\nTAG1\n"),
    ("inc_mixed.txt", "u1\r\nu2\nu3"),
];
const PREFIXES: [&str; 7] = ["-", "// ", "/* ", "<!-- ", "\u{a7} ", "#", "-- \t"];
const WS: [&str; 5] = ["", "  ", "\t", "    ", " \t "];
const TEXTS: [&str; 27] = [
    "XYTAG1 end", "a XYTA b", "YTAG2XY",
    "", "plain text", "  indented text", "trailing blanks  ", "TXTPP#nonext", "x TXTPP#inclde y", "-TXTPP#run\tfoo", "TXTPP", "# TXTPP #run", "use TAG1 here", "TAG2TAG1", "XY and TAG1 and XY",
    "\u{e9}t\u{e9} \u{2713}", "-", "//", "   ", "\t", "- dash text", "// comment text", "a TXTPP#foo TXTPP#run echo hidden", "TAG", "end.", "TXTPP#includes x", "  TXTPP#writex",
];
const OUTS: [&str; 10] = ["", "x", "x\\n", "x\\n\\n", "a\\nb\\n", "a\\r\\nb\\r\\n", "  lead\\n", "TAG1", "\\n", "a\\n\\nb"];
const TAGS: [&str; 5] = ["TAG1", "TAG2", "XY", "TAG", "YTA"];

#[derive(Debug, Clone)]
pub struct GenOpts {
    /// probability (percent) that an error case is injected per directive slot class
    pub error_pct: u32,
    pub max_sources: usize,
    pub max_items: usize,
    /// allow dotted stems in the `.txtpp.ext` shape (defect F4 territory)
    pub dotted_middle_shape: bool,
    /// generate `run` directives
    pub commands: bool,
    /// output path of the source being generated (set per source by `gen_project`): lets inert
    /// argument text mention the file itself
    pub self_out: Option<String>,
    /// allow a second temp directive for the same target (with another body) in one source
    pub temp_twice: bool,
}

impl Default for GenOpts {
    fn default() -> Self {
        Self { error_pct: 6, max_sources: 3, max_items: 10, dotted_middle_shape: true, commands: true, self_out: None, temp_twice: true }
    }
}

pub struct Project {
    pub files: Files,
    pub trailing: bool,
}

/// relative path from directory `from_dir` to file `to` (both relative to the root)
pub fn rel(from_dir: &str, to: &str) -> String {
    let f: Vec<&str> = if from_dir.is_empty() { vec![] } else { from_dir.split('/').collect() };
    let t: Vec<&str> = to.split('/').collect();
    let mut k = 0;
    while k < f.len() && k + 1 < t.len() && f[k] == t[k] {
        k += 1;
    }
    let mut parts: Vec<String> = vec![];
    for _ in k..f.len() {
        parts.push("..".into());
    }
    for x in &t[k..] {
        parts.push(x.to_string());
    }
    parts.join("/")
}

pub fn static_files() -> Files {
    let mut files = Files::new();
    // larger than a pipe buffer (64 KiB): a command printing it needs its stdout drained while it runs
    files.insert("inc_big.txt".into(), (0..2500).map(|i| format!("big line {i:05} ........................\n")).collect::<String>().into_bytes());
    for d in DIRS {
        for (n, c) in STATIC {
            let p = if d.is_empty() { n.to_string() } else { format!("{d}/{n}") };
            files.insert(p, c.as_bytes().to_vec());
        }
    }
    files
}

pub fn gen_project(r: &mut StdRng, o: &GenOpts) -> Project {
    let mut files = static_files();
    let nsrc = r.gen_range(1..=o.max_sources);
    let mut shapes = vec!["{}.txt.txtpp", "{}.txtpp", "{}.txtpp.md", "{}.a.b.txtpp", "{}.\u{fc}.txtpp"];
    if o.dotted_middle_shape {
        shapes.push("{}.v1.txtpp.md");
    }
    let mut srcs: Vec<(String, String)> = vec![]; // (source path, output path)
    for i in 0..nsrc {
        let d = DIRS[r.gen_range(0..DIRS.len())];
        let shape = shapes[r.gen_range(0..shapes.len())];
        let name = shape.replace("{}", &format!("s{i}"));
        let p = if d.is_empty() { name.clone() } else { format!("{d}/{name}") };
        let out = model::output_of(&p).unwrap();
        srcs.push((p, out));
    }
    for i in 0..nsrc {
        let (p, _) = srcs[i].clone();
        let dir = model::dir_of(&p).to_string();
        let deps: Vec<String> = srcs[i + 1..].iter().map(|s| s.1.clone()).collect();
        let mut o2 = o.clone();
        o2.self_out = Some(srcs[i].1.rsplit('/').next().unwrap().to_string());
        let body = gen_source(r, &o2, &dir, &deps, i > 0, i);
        files.insert(p, body.into_bytes());
    }
    Project { files, trailing: r.gen_bool(0.6) }
}

pub fn gen_source(r: &mut StdRng, o: &GenOpts, dir: &str, deps: &[String], is_dep: bool, idx: usize) -> String {
    let crlf = r.gen_bool(0.25);
    let mixed = r.gen_bool(0.1);
    let n = r.gen_range(0..=o.max_items);
    let mut ls: Vec<String> = vec![];
    let mut tmpn = 0;
    let err = |r: &mut StdRng| r.gen_range(0..100) < o.error_pct;
    for _ in 0..n {
        let k = r.gen_range(0..100);
        if k < 33 {
            ls.push(TEXTS[r.gen_range(0..TEXTS.len())].to_string());
            continue;
        }
        let ws = if r.gen_bool(0.5) { "" } else { WS[r.gen_range(0..WS.len())] };
        let pre = if r.gen_range(0..100) < o.error_pct / 2 { "" } else { PREFIXES[r.gen_range(0..PREFIXES.len())] };
        let head = |name: &str, arg: &str| -> String {
            if arg.is_empty() && name.len() % 2 == 0 {
                format!("{ws}{pre}TXTPP#{name}")
            } else {
                format!("{ws}{pre}TXTPP#{name} {arg}")
            }
        };
        let cont = |r: &mut StdRng, arg: &str| -> String {
            // after a prefix-less (erroneous) directive nothing is swallowed as an argument: a
            // `temp` look-alike naming a project file would be a real directive there (D8)
            let arg = if pre.is_empty() && arg.contains("TXTPP#temp") { "more" } else { arg };
            let ascii = pre.is_ascii();
            let form = r.gen_range(0..3);
            if arg.is_empty() && form == 2 {
                format!("{ws}{}", pre.trim_end_matches([' ', '\t']))
            } else if form == 1 && ascii {
                format!("{ws}{}{arg}", " ".repeat(pre.len()))
            } else {
                format!("{ws}{pre}{arg}")
            }
        };
        match k {
            33..=45 => {
                // include
                let t = r.gen_range(0..100);
                let target = if t < 40 && !deps.is_empty() {
                    rel(dir, &deps[r.gen_range(0..deps.len())])
                } else if t < 94 || !err(r) {
                    let d = DIRS[r.gen_range(0..DIRS.len())];
                    let f = STATIC[r.gen_range(0..STATIC.len())].0;
                    let p = if d.is_empty() { f.to_string() } else { format!("{d}/{f}") };
                    let mut x = rel(dir, &p);
                    if r.gen_bool(0.2) {
                        x = format!("./{x}");
                    }
                    x
                } else if r.gen_bool(0.5) {
                    "missing.txt".to_string()
                } else {
                    rel(dir, "sub") + "/"
                };
                let pad = if r.gen_bool(0.2) { "  " } else { "" };
                ls.push(head("include", &format!("{pad}{target}{pad}")));
            }
            46..=50 => {
                if !deps.is_empty() {
                    ls.push(head("after", &rel(dir, &deps[r.gen_range(0..deps.len())])));
                } else {
                    ls.push(head("after", "inc_nl.txt"));
                }
            }
            51..=66 if o.commands => {
                // run
                let t = r.gen_range(0..100);
                if t < 45 {
                    let out = OUTS[r.gen_range(0..OUTS.len())];
                    if r.gen_bool(0.3) {
                        ls.push(head("run", "printf"));
                        ls.push(cont(r, &format!("'{out}'")));
                    } else {
                        ls.push(head("run", &format!("printf '{out}'")));
                    }
                } else if t < 50 {
                    // a quoted literal spanning continuation lines: an empty line is a space inside the quotes
                    ls.push(head("run", "printf 'q"));
                    ls.push(cont(r, ""));
                    ls.push(cont(r, "r\\n'"));
                } else if t < 65 {
                    ls.push(head("run", "echo one   two"));
                    if r.gen_bool(0.5) {
                        ls.push(cont(r, "  three"));
                        if r.gen_bool(0.3) {
                            ls.push(cont(r, ""));
                            ls.push(cont(r, "four  "));
                        }
                    }
                } else if t < 73 {
                    ls.push(head("run", "pwd -P"));
                } else if t < 80 {
                    ls.push(head("run", "echo \"$TXTPP_FILE\""));
                } else if t < 82 {
                    ls.push(head("run", &format!("cat {}", rel(dir, "inc_big.txt"))));
                } else if t < 88 {
                    ls.push(head("run", "cat inc_nonl.txt"));
                } else if t < 94 || !err(r) {
                    ls.push(head("run", "true"));
                } else {
                    ls.push(head("run", ["exit 3", "false", "printf 'partial'; kill -KILL $$", "kill -KILL $$"][r.gen_range(0..4)]));
                }
                if r.gen_bool(0.85) {
                    ls.push(["plain text", "use TAG1 here", "end.", "x TXTPP#inclde y", "TAG"][r.gen_range(0..5)].to_string());
                }
            }
            67..=76 => {
                // temp
                tmpn += 1;
                let t = r.gen_range(0..100);
                let bad = err(r);
                let target = if bad && t < 25 {
                    format!("t{idx}_{tmpn}.txtpp")
                } else if bad && t < 45 {
                    // an existing directory (or nothing at all: resolves to the source's own directory)
                    ["sub", "", ".", "sub/deep", "other"][r.gen_range(0..5)].to_string()
                } else if bad && t < 70 {
                    format!("nodir/t{idx}_{tmpn}.tmp")
                } else if bad {
                    format!("t{idx}_{tmpn}.x.txtpp")
                } else if t < 12 && tmpn == 1 && o.self_out.is_some() {
                    // names a tool would pick for a staging copy of this source's own output:
                    // `<output stem>.tmp` (Path::with_extension) or `<output>.tmp`
                    let own = o.self_out.clone().unwrap();
                    if t % 2 == 0 {
                        std::path::Path::new(&own).with_extension("tmp").to_string_lossy().to_string()
                    } else {
                        format!("{own}.tmp")
                    }
                } else if t < 75 {
                    format!("t{idx}_{tmpn}.tmp")
                } else if t < 88 && !dir.is_empty() {
                    format!("../t{idx}_{tmpn}.tmp")
                } else if dir.is_empty() {
                    format!("sub/t{idx}_{tmpn}.tmp")
                } else {
                    format!("./t{idx}_{tmpn}.tmp")
                };
                ls.push(head("temp", &target));
                let nb = r.gen_range(0..4);
                for _ in 0..nb {
                    let b = ["body line", "", "  indented body", "TXTPP#run echo inert", "\u{e9}", "TAG1", "-TXTPP#temp inc_multi.txt"][r.gen_range(0..7)];
                    ls.push(cont(r, b));
                }
                if !bad && t < 75 && r.gen_bool(0.5) {
                    ls.push("".into());
                    if r.gen_bool(0.5) || !o.commands {
                        ls.push(head("include", &target));
                    } else {
                        ls.push(head("run", &format!("cat {target}")));
                    }
                    if o.temp_twice && r.gen_bool(0.25) {
                        // the same target written again with another body, and read again: the
                        // second read has to see the second content
                        ls.push("between the two versions".into());
                        ls.push(head("temp", &target));
                        ls.push(cont(r, "second version of the body"));
                        ls.push("".into());
                        ls.push(head("include", &target));
                    }
                }
            }
            77..=86 => {
                // tag + (maybe) producer + (maybe) use
                let tag = TAGS[r.gen_range(0..TAGS.len())];
                ls.push(head("tag", tag));
                let t = r.gen_range(0..100);
                if t < 97 || !err(r) {
                    if r.gen_bool(0.3) {
                        ls.push(head("", "just a comment"));
                    }
                    match r.gen_range(0..3) {
                        0 if o.commands => {
                            ls.push(head("run", &format!("printf '{}'", OUTS[r.gen_range(0..OUTS.len())])));
                            if r.gen_bool(0.7) {
                                ls.push("".into());
                            }
                        }
                        1 => ls.push(head("include", ["inc_nl.txt", "inc_nonl.txt", "inc_crlf.txt", "inc_mix_lf_first.txt", "inc_mix_crlf_first.txt", "inc_mixed.txt"][r.gen_range(0..6)])),
                        _ => {
                            ls.push(head("write", "w1"));
                            if r.gen_bool(0.5) {
                                ls.push(cont(r, "w2"));
                                ls.push(cont(r, ""));
                            }
                        }
                    }
                    if t < 90 || !err(r) {
                        let u = [format!("<{tag}>"), tag.to_string(), format!("a {tag} b {tag} c"), format!("{tag}XY")];
                        if r.gen_bool(0.3) {
                            ls.push("spacer".into());
                        }
                        ls.push(u[r.gen_range(0..u.len())].clone());
                    }
                }
            }
            87..=94 => {
                ls.push(head("write", ["w one", "TXTPP#run echo escaped", "", "TAG1 stays", "  lead is trimmed"][r.gen_range(0..5)]));
                let nb = r.gen_range(0..3);
                for _ in 0..nb {
                    let own_inc = format!("-TXTPP#include {}", o.self_out.clone().unwrap_or_else(|| "inc_nl.txt".into()));
                    let own_after = format!("TXTPP#after {}", o.self_out.clone().unwrap_or_else(|| "inc_nl.txt".into()));
                    let b = ["second", "", "-TXTPP#include inc_nl.txt", "  keep lead", "-TXTPP#temp inc_nl.txt", "TXTPP#temp ../inc_nonl.txt", own_inc.as_str(), own_after.as_str()][r.gen_range(0..8)];
                    ls.push(cont(r, b));
                }
            }
            _ => {
                ls.push(head("", ["", "*/", "-->", "note"][r.gen_range(0..4)]));
                if r.gen_bool(0.4) {
                    let b = ["more", "-TXTPP#temp inc_crlf.txt", "TXTPP#run echo commented out"][r.gen_range(0..3)];
                    ls.push(cont(r, b));
                }
            }
        }
    }
    if is_dep {
        ls.push(format!("end of dep {idx}"));
    }
    if r.gen_range(0..40) == 0 {
        // a very long first line: line-ending detection has to look past the usual buffer sizes
        let len = [8180usize, 8189, 8190, 8191, 8192, 8193, 9000, 20_000][r.gen_range(0..8)];
        ls.insert(0, format!("long first line {}", "x".repeat(len - 16)));
    }
    let mut s = String::new();
    let n = ls.len();
    let final_nl = r.gen_bool(0.8);
    for (i, l) in ls.iter().enumerate() {
        s.push_str(l);
        if i + 1 < n || final_nl {
            let use_crlf = if mixed { r.gen_bool(0.5) } else { crlf };
            s.push_str(if use_crlf { "\r\n" } else { "\n" });
        }
    }
    s
}

// ------------------------------------------------------------------------------------ graphs

/// A dependency graph project: files f0..f(n-1); adj[i] = list of (j, edge kind)
#[derive(Debug, Clone, PartialEq)]
pub enum EdgeKind {
    Include,
    /// `after fj` + `run cat fj` (optionally logging what it saw)
    AfterCat,
}

#[derive(Debug, Clone)]
pub struct Graph {
    pub n: usize,
    pub edges: Vec<Vec<(usize, EdgeKind)>>,
}

impl Graph {
    /// from an adjacency bitmask: bit (i*n + j) set = edge i -> j
    pub fn from_mask(n: usize, mask: u64, kinds: u64) -> Self {
        let mut edges = vec![vec![]; n];
        for i in 0..n {
            for j in 0..n {
                if mask >> (i * n + j) & 1 == 1 {
                    let kind = if kinds >> (i * n + j) & 1 == 1 { EdgeKind::AfterCat } else { EdgeKind::Include };
                    edges[i].push((j, kind));
                }
            }
        }
        Self { n, edges }
    }
    pub fn succ(&self, i: usize) -> Vec<usize> {
        self.edges[i].iter().map(|e| e.0).collect()
    }
    /// reach[i] = set of vertices reachable from i (including i)
    pub fn reach(&self, i: usize) -> Vec<bool> {
        let mut seen = vec![false; self.n];
        let mut st = vec![i];
        seen[i] = true;
        while let Some(x) = st.pop() {
            for y in self.succ(x) {
                if !seen[y] {
                    seen[y] = true;
                    st.push(y);
                }
            }
        }
        seen
    }
    /// does vertex i lie on a cycle (self loop or longer)?
    pub fn on_cycle(&self, i: usize) -> bool {
        self.succ(i).iter().any(|&j| self.reach(j)[i])
    }
    /// can i reach some cycle?
    pub fn reaches_cycle(&self, i: usize) -> bool {
        let r = self.reach(i);
        (0..self.n).any(|v| r[v] && self.on_cycle(v))
    }
    pub fn is_acyclic(&self) -> bool {
        (0..self.n).all(|i| !self.on_cycle(i))
    }
}

pub fn graph_name(i: usize) -> String {
    format!("f{i}.txt")
}

/// Sources for a graph. Directive prefixes alternate (`-` for include/after, `#` for the cat
/// command, `//` for the marker) so that no run block can swallow the following line as a
/// continuation. Every file has a unique head and tail token line
/// `<name>:g<generation>:<nonce>`; `marker_log` adds a once-per-execution marker command after the
/// dependency directives (and, in a dependency-free file, at the top); `obs_log` makes
/// AfterCat edges log the checksum of what they saw.
pub fn graph_files(g: &Graph, generation: u32, nonce: u64, marker_log: Option<&str>, obs_log: Option<&str>, dup_edges: bool) -> Files {
    let mut files = Files::new();
    for i in 0..g.n {
        let name = graph_name(i);
        let mut s = format!("{name}:head:g{generation}:{nonce:x}\n");
        for (j, kind) in &g.edges[i] {
            let dep = graph_name(*j);
            match kind {
                EdgeKind::Include => {
                    s.push_str(&format!("-TXTPP#include {dep}\n"));
                    if dup_edges {
                        s.push_str(&format!("-TXTPP#include ./{dep}\n"));
                    }
                }
                EdgeKind::AfterCat => {
                    s.push_str(&format!("-TXTPP#after {dep}\n"));
                    match obs_log {
                        Some(log) => s.push_str(&format!("#TXTPP#run cat {dep}; echo {name} saw {dep} $(cksum < {dep}) >> {log}\n")),
                        None => s.push_str(&format!("#TXTPP#run cat {dep}\n")),
                    }
                }
            }
        }
        if let Some(log) = marker_log {
            s.push_str(&format!("//TXTPP#run echo {name} >> {log}\n"));
        }
        s.push_str(&format!("{name}:tail:g{generation}:{nonce:x}\n"));
        files.insert(format!("{name}.txtpp"), s.into_bytes());
    }
    files
}

/// number of labelled digraphs (with self loops) on n vertices = 2^(n*n)
pub fn digraph_count(n: usize) -> u64 {
    1u64 << (n * n)
}

// ------------------------------------------------------------------------------- hostile text

pub const HOSTILE: [&str; 40] = [
    "TXTPP#", "TXTPP#run echo hi", "-TXTPP#", "-TXTPP#include x", "TXTPP#write", "TXTPP#writ", "TXTPP#tag", "TXTPP#tags T", "TXTPP#temp", "TXTPP#after", "TXTPP#run\techo", "TXTPP# ", " TXTPP#", "\tTXTPP#run", "//", "// ",
    "/*", "<!-- ", "-", "#", "TAG1", "TAG", "T", "XY", " ", "  ", "\t", "x", "word", "\u{e9}", "\u{2713}", "\u{a7} ", ".", "TXTPP", "#run", "include", "run", "$(echo no)", "`echo no`", "\\n",
];

pub fn hostile_line(r: &mut StdRng, allow_lead_blank: bool, allow_trail_blank: bool) -> String {
    let n = r.gen_range(0..=6);
    let mut s = String::new();
    for _ in 0..n {
        s.push_str(HOSTILE[r.gen_range(0..HOSTILE.len())]);
    }
    let blank = |c: char| c == ' ' || c == '\t';
    let mut t = s.as_str();
    if !allow_lead_blank {
        t = t.trim_start_matches(blank);
    }
    if !allow_trail_blank {
        t = t.trim_end_matches(blank);
    }
    t.to_string()
}

pub fn join_lines(ls: &[String], crlf: bool, final_nl: bool) -> String {
    let le = if crlf { "\r\n" } else { "\n" };
    let mut s = ls.join(le);
    if final_nl && !ls.is_empty() {
        s.push_str(le);
    }
    s
}

/// name -> count helper for coverage
pub fn bump(m: &mut BTreeMap<String, u64>, k: &str) {
    *m.entry(k.to_string()).or_insert(0) += 1;
}
