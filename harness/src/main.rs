//! `vh`: verification harness front end (called by /verif/check).
//!   vh run <id> <quick|thorough> <seed>
//!   vh shard <id> <tier> <seed> <i> <n> <outfile>      (internal)
//!   vh replay <id> <dir>
use vh::fw::{run_parent, run_replay, run_shard, Tier};

fn main() {
    let a: Vec<String> = std::env::args().collect();
    let usage = || -> ! {
        eprintln!("usage: vh run <id> <quick|thorough> <seed> | vh replay <id> <dir> | vh list");
        std::process::exit(2)
    };
    if a.len() < 2 {
        usage();
    }
    let tier = |s: &str| if s == "thorough" { Tier::Thorough } else { Tier::Quick };
    let find = |id: &str| match vh::props::registry().into_iter().find(|p| p.id == id) {
        Some(p) => p,
        None => {
            eprintln!("unknown property {id}");
            std::process::exit(2)
        }
    };
    let code = match a[1].as_str() {
        "list" => {
            for p in vh::props::registry() {
                println!("{}", p.id);
            }
            0
        }
        "run" if a.len() >= 5 => run_parent(&find(&a[2]), tier(&a[3]), a[4].parse().unwrap_or(1)),
        "shard" if a.len() >= 8 => run_shard(&find(&a[2]), tier(&a[3]), a[4].parse().unwrap_or(1), a[5].parse().unwrap_or(0), a[6].parse().unwrap_or(1), std::path::Path::new(&a[7])),
        "tsan-selftest" => {
            // deliberate data race: confirms that the sanitizer build really reports races
            static mut RACY: u64 = 0;
            let hs: Vec<_> = (0..2)
                .map(|_| {
                    std::thread::spawn(|| {
                        for _ in 0..100_000 {
                            unsafe {
                                let p = std::ptr::addr_of_mut!(RACY);
                                p.write_volatile(p.read_volatile() + 1);
                            }
                        }
                    })
                })
                .collect();
            for h in hs {
                let _ = h.join();
            }
            println!("selftest done: {}", unsafe { std::ptr::addr_of!(RACY).read_volatile() });
            0
        }
        "stress" if a.len() >= 4 => vh::props::sched_props::stress(a[2].parse().unwrap_or(100), a[3].parse().unwrap_or(1)),
        "replay" if a.len() >= 4 => run_replay(&find(&a[2]), std::path::Path::new(&a[3])),
        _ => usage(),
    };
    std::process::exit(code);
}
