//! E1: reference model of txtpp's documented semantics (README + CHANGELOG + rustdoc of `Mode`),
//! written independently of `pp/mod.rs`: parse a source into items with its own recogniser, then
//! evaluate the item list as a stream (DESIGN §4.1, Appendix B). Also holds the reference
//! recogniser (`detect`, `continues`) and the reference tag store used by C14/C15.
use std::collections::{BTreeMap, BTreeSet};

pub const NAMES: [&str; 7] = ["", "include", "after", "run", "temp", "tag", "write"];

#[derive(Debug, Clone, PartialEq)]
pub struct Dir {
    pub ws: String,
    pub pre: String,
    pub name: String,
    pub args: Vec<String>,
}

#[derive(Debug, Clone, PartialEq)]
pub enum Item {
    Text(String),
    Dir(Dir),
}

fn ws_class(s: &str) -> &'static str {
    let w: String = s.chars().take_while(|c| is_blank(*c)).collect();
    if w.is_empty() {
        "none"
    } else if w.chars().all(|c| c == ' ') {
        "spaces"
    } else if w.chars().all(|c| c == '\t') {
        "tabs"
    } else {
        "mixed"
    }
}

fn is_blank(c: char) -> bool {
    c == ' ' || c == '\t'
}

pub fn multi(name: &str) -> bool {
    matches!(name, "" | "run" | "temp" | "write")
}

/// split bytes into lines + line ending
pub fn split(s: &str) -> (Vec<String>, &'static str) {
    let le = match s.find('\n') {
        Some(i) if i > 0 && s.as_bytes()[i - 1] == b'\r' => "\r\n",
        _ => "\n",
    };
    (lines(s), le)
}

pub fn lines(s: &str) -> Vec<String> {
    let mut v: Vec<String> = s
        .split('\n')
        .map(|l| l.strip_suffix('\r').unwrap_or(l).to_string())
        .collect();
    if s.ends_with('\n') || s.is_empty() {
        // the piece after the final LF (or the only piece of an empty string) is not a line
        v.pop();
    } else {
        // last piece had no LF: a trailing CR is content; restore it
        let last_raw = s.rsplit('\n').next().unwrap();
        *v.last_mut().unwrap() = last_raw.to_string();
    }
    v
}

pub fn detect(line: &str) -> Option<Dir> {
    let wl = line.len() - line.trim_start_matches(is_blank).len();
    let (ws, r) = line.split_at(wl);
    let i = r.find("TXTPP#")?;
    let pre = &r[..i];
    let t = &r[i + 6..];
    let (name, arg) = match t.find(' ') {
        Some(j) => (&t[..j], t[j + 1..].trim_matches(is_blank)),
        None => (t, ""),
    };
    if !NAMES.contains(&name) {
        return None;
    }
    Some(Dir { ws: ws.into(), pre: pre.into(), name: name.into(), args: vec![arg.into()] })
}

pub fn continues(d: &Dir, line: &str) -> Option<String> {
    if !multi(&d.name) {
        return None;
    }
    let r = line.strip_prefix(d.ws.as_str())?;
    if r == d.pre.trim_end_matches(is_blank) {
        return Some(String::new());
    }
    let spaces = " ".repeat(d.pre.len());
    if r.starts_with(d.pre.as_str()) || r.starts_with(spaces.as_str()) {
        return Some(r[d.pre.len()..].trim_end_matches(is_blank).to_string());
    }
    None
}

#[derive(Debug, Clone, PartialEq)]
pub enum ErrKind {
    Prefixless,
    Include,
    Command,
    Tag,
    UnusedTag,
    TempTxtpp,
    TempTarget,
    Cycle,
    Other(String),
}

pub fn parse(lines: &[String]) -> Result<Vec<Item>, ErrKind> {
    match parse_partial(lines) {
        (_, Some(e)) => Err(e),
        (items, None) => Ok(items),
    }
}

/// Like `parse`, but a prefix-less multi-line directive line is skipped instead of ending the parse
/// (what clean mode does with it): every directive that any mode could ever execute is listed.
pub fn parse_lenient(lines: &[String]) -> Vec<Item> {
    let mut items = vec![];
    let mut cur: Option<Dir> = None;
    for l in lines {
        if let Some(d) = cur.as_mut() {
            if let Some(a) = continues(d, l) {
                d.args.push(a);
                continue;
            }
            items.push(Item::Dir(cur.take().unwrap()));
        }
        match detect(l) {
            Some(d) => {
                if multi(&d.name) && d.pre.is_empty() {
                    continue;
                }
                cur = Some(d)
            }
            None => items.push(Item::Text(l.clone())),
        }
    }
    if let Some(d) = cur {
        items.push(Item::Dir(d));
    }
    items
}

/// Like `parse`, but also returns the items that precede a prefix-less multi-line directive: the
/// real preprocessor has executed those (including their commands) before it meets the error.
pub fn parse_partial(lines: &[String]) -> (Vec<Item>, Option<ErrKind>) {
    let mut items = vec![];
    let mut cur: Option<Dir> = None;
    for l in lines {
        if let Some(d) = cur.as_mut() {
            if let Some(a) = continues(d, l) {
                d.args.push(a);
                continue;
            }
            items.push(Item::Dir(cur.take().unwrap()));
        }
        match detect(l) {
            Some(d) => {
                if multi(&d.name) && d.pre.is_empty() {
                    return (items, Some(ErrKind::Prefixless));
                }
                cur = Some(d)
            }
            None => items.push(Item::Text(l.clone())),
        }
    }
    if let Some(d) = cur {
        items.push(Item::Dir(d));
    }
    (items, None)
}

#[derive(Default, Debug)]
pub struct TagStore {
    pub listening: Option<String>,
    pub stored: Vec<(String, String)>,
}

pub fn normalise(c: &str, le: &str) -> String {
    let mut s = lines(c).join(le);
    if c.ends_with('\n') {
        s.push_str(le);
    }
    s
}

impl TagStore {
    pub fn create(&mut self, n: &str) -> Result<(), ErrKind> {
        if self.listening.is_some() {
            return Err(ErrKind::Tag);
        }
        for (s, _) in &self.stored {
            if s.starts_with(n) || n.starts_with(s.as_str()) {
                return Err(ErrKind::Tag);
            }
        }
        self.listening = Some(n.to_string());
        Ok(())
    }
    pub fn inject(&mut self, l: &str, le: &str) -> String {
        let mut cand: Vec<(usize, usize)> = self
            .stored
            .iter()
            .enumerate()
            .filter_map(|(k, (n, _))| l.find(n.as_str()).map(|p| (p, k)))
            .collect();
        cand.sort();
        let mut out = String::new();
        let mut end = 0;
        let mut used = BTreeSet::new();
        for (p, k) in cand {
            if p < end {
                continue;
            }
            out.push_str(&l[end..p]);
            out.push_str(&normalise(&self.stored[k].1, le));
            end = p + self.stored[k].0.len();
            used.insert(k);
        }
        out.push_str(&l[end..]);
        let mut k = 0;
        self.stored.retain(|_| {
            k += 1;
            !used.contains(&(k - 1))
        });
        out
    }
}

/// A project: relative path -> content (sources and static files). `root` is the absolute directory.
pub struct World<'a> {
    pub root: &'a str,
    pub files: &'a BTreeMap<String, Vec<u8>>,
    pub trailing: bool,
}

#[derive(Debug, Default, Clone)]
pub struct Built {
    /// accepted outputs per output path (first = what the pending-newline reading gives)
    pub outputs: BTreeMap<String, Vec<String>>,
    pub temps: BTreeMap<String, String>,
    /// temp target -> source that wrote it
    pub temp_owner: BTreeMap<String, String>,
    /// source -> its line ending
    pub le: BTreeMap<String, &'static str>,
}

pub fn is_txtpp(p: &str) -> bool {
    let name = p.rsplit('/').next().unwrap();
    let parts: Vec<&str> = name.split('.').collect();
    // extension = last part if there is a non-empty stem
    let ext = |parts: &[&str]| -> Option<String> {
        if parts.len() >= 2 && !(parts.len() == 2 && parts[0].is_empty()) {
            Some(parts[parts.len() - 1].to_string())
        } else {
            None
        }
    };
    match ext(&parts) {
        Some(e) if e == "txtpp" => true,
        Some(_) => matches!(ext(&parts[..parts.len() - 1]), Some(e2) if e2 == "txtpp"),
        None => false,
    }
}

/// output path for a source path
pub fn output_of(p: &str) -> Option<String> {
    if !is_txtpp(p) {
        return None;
    }
    let (dir, name) = match p.rfind('/') {
        Some(i) => (&p[..=i], &p[i + 1..]),
        None => ("", p),
    };
    let parts: Vec<&str> = name.split('.').collect();
    let n = parts.len();
    let out = if parts[n - 1] == "txtpp" { parts[..n - 1].join(".") } else { format!("{}.{}", parts[..n - 2].join("."), parts[n - 1]) };
    Some(format!("{dir}{out}"))
}

pub fn norm_path(base_dir: &str, rel: &str) -> Option<String> {
    // base_dir: "" or "a/b"; rel may contain ./ ../ ; returns normalised relative path or None if it escapes
    let mut st: Vec<&str> = if base_dir.is_empty() { vec![] } else { base_dir.split('/').collect() };
    for c in rel.split('/') {
        match c {
            "" | "." => {}
            ".." => {
                st.pop()?;
            }
            x => st.push(x),
        }
    }
    Some(st.join("/"))
}

pub fn dir_of(p: &str) -> &str {
    match p.rfind('/') {
        Some(i) => &p[..i],
        None => "",
    }
}

pub struct Eval<'a> {
    pub w: &'a World<'a>,
    pub done: BTreeMap<String, Result<(), ErrKind>>, // per source
    pub built: Built,
    pub stack: Vec<String>,
    pub cover: BTreeSet<String>,
}

impl<'a> Eval<'a> {
    pub fn new(w: &'a World<'a>) -> Self {
        Eval { w, done: BTreeMap::new(), built: Built::default(), stack: vec![], cover: BTreeSet::new() }
    }

    /// source for an output path, if any
    pub fn source_of(&self, out: &str) -> Option<String> {
        if is_txtpp(out) {
            return None;
        }
        let (dir, name) = match out.rfind('/') {
            Some(i) => (&out[..=i], &out[i + 1..]),
            None => ("", out),
        };
        let mut cands = vec![];
        let has_ext = name.rfind('.').map(|i| i > 0).unwrap_or(false);
        if has_ext {
            let i = name.rfind('.').unwrap();
            cands.push(format!("{dir}{name}.txtpp"));
            cands.push(format!("{dir}{}.txtpp.{}", &name[..i], &name[i + 1..]));
        } else {
            cands.push(format!("{dir}{name}.txtpp"));
        }
        cands.into_iter().find(|c| self.w.files.contains_key(c))
    }

    fn read(&mut self, path: &str) -> Option<String> {
        // content of a file at this moment: built output, temp, or static
        if let Some(v) = self.built.outputs.get(path) {
            return Some(v[0].clone());
        }
        if let Some(t) = self.built.temps.get(path) {
            return Some(t.clone());
        }
        self.w.files.get(path).and_then(|b| String::from_utf8(b.clone()).ok())
    }

    pub fn build(&mut self, src: &str) -> Result<(), ErrKind> {
        if let Some(r) = self.done.get(src) {
            return r.clone();
        }
        if self.stack.iter().any(|s| s == src) {
            return Err(ErrKind::Cycle);
        }
        self.stack.push(src.to_string());
        let r = self.build_inner(src);
        self.stack.pop();
        self.done.insert(src.to_string(), r.clone());
        r
    }

    fn build_inner(&mut self, src: &str) -> Result<(), ErrKind> {
        let text = String::from_utf8(self.w.files[src].clone()).map_err(|_| ErrKind::Other("utf8".into()))?;
        let (ls, le) = split(&text);
        self.built.le.insert(src.to_string(), le);
        let dir = dir_of(src).to_string();
        let (items, parse_err) = parse_partial(&ls);
        if let Some(e) = parse_err {
            // the commands in front of the erroneous line have run by the time the error is met:
            // one of them outside the vocabulary (D7) puts the project outside the judged domain
            for it in &items {
                if let Item::Dir(d) = it {
                    if d.name == "run" {
                        if let Err(ErrKind::Other(m)) = self.command(&d.args.join(" "), &dir, src) {
                            return Err(ErrKind::Other(m));
                        }
                    }
                }
            }
            return Err(e);
        }
        let mut out = String::new();
        let mut owed = false;
        let mut tags = TagStore::default();
        let n = items.len();
        let mut last_dir_output: Option<String> = None;
        let mut last_was_dir = false;
        for (idx, it) in items.iter().enumerate() {
            match it {
                Item::Text(l) => {
                    self.cover.insert(format!("text-after|owed={owed}|prev_dir={}", last_was_dir));
                    last_was_dir = false;
                    if owed {
                        out.push_str(le);
                    }
                    out.push_str(&tags.inject(l, le));
                    owed = true;
                    last_dir_output = None;
                    self.cover.insert(format!("text|owed={}|tags={}|listening={}|le={}|ws={}", idx > 0, tags.stored.len().min(2), tags.listening.is_some(), le.len(), ws_class(l)));
                }
                Item::Dir(d) => {
                    let o = self.result(d, &dir, src, le, &mut tags)?;
                    let Some(o) = o else {
                        self.cover.insert(format!("dir:{}|none|multi={}|listening={}|eof={}", d.name, d.args.len() > 1, tags.listening.is_some(), idx + 1 == n));
                        last_was_dir = true;
                        continue;
                    };
                    if tags.listening.is_some() {
                        let name = tags.listening.take().unwrap();
                        self.cover.insert(format!("dir:{}|stored|out:{}|multi={}|eof={}", d.name, if o.is_empty() { "empty" } else if o.ends_with('\n') { "nl" } else { "nonl" }, d.args.len() > 1, idx + 1 == n));
                        tags.stored.push((name, o));
                        last_was_dir = true;
                        continue;
                    }
                    let owed_before = owed;
                    if owed {
                        out.push_str(le);
                    }
                    let mut f = lines(&o).iter().map(|l| format!("{}{}", d.ws, l)).collect::<Vec<_>>().join(le);
                    if o.ends_with('\n') {
                        f.push_str(le);
                    }
                    out.push_str(&f);
                    owed = idx + 1 == n;
                    if owed {
                        last_dir_output = Some(f.clone());
                    }
                    self.cover.insert(format!(
                        "dir:{}|out:{}|eof={}|ws={}|multi={}|owed_before={}|le={}|pre={}",
                        d.name,
                        if o.is_empty() { "empty" } else if o.ends_with('\n') { "nl" } else if o.contains('\n') { "multi-nonl" } else { "nonl" },
                        owed,
                        ws_class(&d.ws),
                        d.args.len() > 1,
                        owed_before,
                        le.len(),
                        if d.pre.is_ascii() { "ascii" } else { "nonascii" }
                    ));
                    last_was_dir = true;
                }
            }
        }
        if tags.listening.is_some() || !tags.stored.is_empty() {
            return Err(ErrKind::UnusedTag);
        }
        let mut accepted = vec![];
        if owed && self.w.trailing {
            accepted.push(format!("{out}{le}"));
            if let Some(f) = &last_dir_output {
                if f.ends_with(le) {
                    accepted.push(out.clone()); // D11
                }
            }
        } else {
            accepted.push(out.clone());
            if let Some(f) = &last_dir_output {
                if f.ends_with(le) && !self.w.trailing {
                    accepted.push(out[..out.len() - le.len()].to_string()); // D11
                }
            }
        }
        self.built.outputs.insert(output_of(src).unwrap(), accepted);
        Ok(())
    }

    fn result(&mut self, d: &Dir, dir: &str, src: &str, le: &str, tags: &mut TagStore) -> Result<Option<String>, ErrKind> {
        match d.name.as_str() {
            "" => Ok(None),
            "tag" => {
                tags.create(&d.args[0])?;
                Ok(None)
            }
            "write" => Ok(Some(d.args.join("\n"))),
            "temp" => {
                let a = &d.args[0];
                if is_txtpp(a) {
                    return Err(ErrKind::TempTxtpp);
                }
                let p = norm_path(dir, a).ok_or(ErrKind::TempTarget)?;
                if a.is_empty() {
                    return Err(ErrKind::TempTarget);
                }
                // the target is an existing directory
                if p.is_empty() || self.w.files.keys().any(|k| k.starts_with(&format!("{p}/"))) {
                    return Err(ErrKind::TempTarget);
                }
                // parent directory must exist: some file lives in it or it is the root
                let pd = dir_of(&p).to_string();
                if !pd.is_empty() && !self.w.files.keys().any(|k| k.starts_with(&format!("{pd}/"))) {
                    return Err(ErrKind::TempTarget);
                }
                if self.w.files.contains_key(&p) && !self.built.temps.contains_key(&p) {
                    // D8: a temp target must not be a source / static file of the project
                    return Err(ErrKind::Other(format!("temp target is a project file: {p}")));
                }
                if let Some(o) = self.built.temp_owner.get(&p) {
                    if o != src {
                        return Err(ErrKind::Other(format!("temp target written by two sources: {p}")));
                    }
                }
                self.built.temp_owner.insert(p.clone(), src.to_string());
                self.built.temps.insert(p, d.args[1..].join(le));
                Ok(None)
            }
            "include" | "after" => {
                let a = &d.args[0];
                let p = norm_path(dir, a).ok_or(ErrKind::Include)?;
                if let Some(s) = self.source_of(&p) {
                    self.build(&s).map_err(|e| if e == ErrKind::Cycle { ErrKind::Cycle } else { e })?;
                }
                if d.name == "after" {
                    return Ok(None);
                }
                match self.read(&p) {
                    Some(c) => Ok(Some(c)),
                    None => Err(ErrKind::Include),
                }
            }
            "run" => {
                let cmd = d.args.join(" ");
                self.command(&cmd, dir, src).map(Some)
            }
            _ => unreachable!(),
        }
    }

    /// command vocabulary (D7)
    fn command(&mut self, cmd: &str, dir: &str, src: &str) -> Result<String, ErrKind> {
        let mut c = cmd.trim_matches(is_blank);
        // `sleep <t>; CMD` : the sleep only stretches the run
        if let Some(rest) = c.strip_prefix("sleep ") {
            if let Some((t, tail)) = rest.split_once("; ") {
                if !t.is_empty() && t.chars().all(|ch| ch.is_ascii_digit() || ch == '.') {
                    c = tail;
                }
            }
        }
        // `CMD; echo WORDS >> /abs/log` : marker / observation append, no stdout
        if let Some((head, tail)) = c.rsplit_once("; echo ") {
            if let Some((words, log)) = tail.rsplit_once(" >> ") {
                let plain = |w: &str| !w.is_empty() && w.chars().all(|ch| ch.is_ascii_alphanumeric() || "._,:/-'".contains(ch));
                let words_ok = words.split(' ').all(|w| plain(w) || w == "$(cksum" || w == "<" || (w.ends_with(')') && plain(&w[..w.len() - 1])));
                if log.starts_with('/') && log.chars().all(|ch| ch.is_ascii_alphanumeric() || "._/-".contains(ch)) && words_ok {
                    c = head;
                }
            }
        }
        if let Some(tail) = c.strip_prefix("echo ") {
            if let Some((words, log)) = tail.rsplit_once(" >> ") {
                if log.starts_with('/') && log.chars().all(|ch| ch.is_ascii_alphanumeric() || "._/-".contains(ch)) && words.chars().all(|ch| ch.is_ascii_alphanumeric() || "._,:- ".contains(ch)) {
                    return Ok(String::new());
                }
            }
        }
        if c == "echo \"$TXTPP_FILE\"" {
            // README: absolute path; code: base-relative rendering. Both accepted by C17; here the
            // model follows the code's rendering relative to the base (= root) directory.
            return Ok(format!("{src}\n"));
        }
        if c == "true" {
            return Ok(String::new());
        }
        // the shell kills itself: no exit code at all, still a failed command
        if c == "kill -KILL $$" {
            return Err(ErrKind::Command);
        }
        if let Some(head) = c.strip_suffix("; kill -KILL $$") {
            // only `<vocabulary command>; kill -KILL $$`: anything else in front of the kill (for
            // instance a swallowed line that puts it behind a shell comment sign) is outside D7
            return match self.command(head, dir, src) {
                Ok(_) | Err(ErrKind::Command) => Err(ErrKind::Command),
                Err(e) => Err(e),
            };
        }
        if c == "false" {
            return Err(ErrKind::Command);
        }
        if let Some(n) = c.strip_prefix("exit ") {
            if let Ok(code) = n.parse::<u8>() {
                return if code == 0 { Ok(String::new()) } else { Err(ErrKind::Command) };
            }
        }
        if c == "pwd -P" {
            return Ok(if dir.is_empty() { format!("{}\n", self.w.root) } else { format!("{}/{}\n", self.w.root, dir) });
        }
        if let Some(rest) = c.strip_prefix("printf '") {
            let lit = rest.strip_suffix('\'').ok_or(ErrKind::Other(format!("bad printf: {c}")))?;
            if lit.contains('\'') || lit.contains('%') {
                return Err(ErrKind::Other(format!("bad printf: {c}")));
            }
            let mut o = String::new();
            let mut it = lit.chars();
            while let Some(ch) = it.next() {
                if ch == '\\' {
                    match it.next() {
                        Some('n') => o.push('\n'),
                        Some('r') => o.push('\r'),
                        Some('t') => o.push('\t'),
                        Some('\\') => o.push('\\'),
                        other => return Err(ErrKind::Other(format!("printf escape {other:?}"))),
                    }
                } else {
                    o.push(ch);
                }
            }
            return Ok(o);
        }
        if let Some(rest) = c.strip_prefix("echo ") {
            let words: Vec<&str> = rest.split(is_blank).filter(|w| !w.is_empty()).collect();
            if words.iter().all(|w| w.chars().all(|ch| ch.is_ascii_alphanumeric() || "._,:-".contains(ch))) && !words.is_empty() && !words[0].starts_with('-') {
                return Ok(format!("{}\n", words.join(" ")));
            }
        }
        // `cat 'path with blanks'`
        if let Some(q) = c.strip_prefix("cat '").and_then(|x| x.strip_suffix('\'')) {
            if !q.is_empty() && q.chars().all(|ch| ch.is_ascii_alphanumeric() || "._/- ".contains(ch)) {
                let p = norm_path(dir, q).ok_or(ErrKind::Command)?;
                return self.read(&p).ok_or(ErrKind::Command);
            }
        }
        if let Some(rest) = c.strip_prefix("cat ") {
            if rest.chars().all(|ch| ch.is_ascii_alphanumeric() || "._/-".contains(ch)) && !rest.is_empty() {
                let p = norm_path(dir, rest).ok_or(ErrKind::Command)?;
                return self.read(&p).ok_or(ErrKind::Command);
            }
        }
        Err(ErrKind::Other(format!("command outside vocabulary: {c}")))
    }
}


/// Everything the model predicts for one run
#[derive(Debug, Clone)]
pub struct Expect {
    /// verdict of the whole run (first failing requested source in order)
    pub verdict: Result<(), ErrKind>,
    pub per_source: BTreeMap<String, Result<(), ErrKind>>,
    pub built: Built,
    pub cover: BTreeSet<String>,
    /// Some(reason): the project left the judged domain (DESIGN §4.3); nothing is compared
    pub out_of_domain: Option<String>,
}

/// Evaluate the sources in `requested` (and their dependencies) sequentially
pub fn evaluate(files: &BTreeMap<String, Vec<u8>>, root: &str, trailing: bool, requested: &[String]) -> Expect {
    let w = World { root, files, trailing };
    let mut ev = Eval::new(&w);
    let mut verdict: Result<(), ErrKind> = Ok(());
    let mut ood = None;
    for s in requested {
        if let Err(e) = ev.build(s) {
            if let ErrKind::Other(m) = &e {
                ood = Some(m.clone());
            }
            if verdict.is_ok() {
                verdict = Err(e);
            }
        }
    }
    // an out-of-domain dependency poisons only what depends on it, but keep it simple: whole case
    for r in ev.done.values() {
        if let Err(ErrKind::Other(m)) = r {
            ood = Some(m.clone());
        }
    }
    Expect { verdict, per_source: ev.done.clone(), built: ev.built.clone(), cover: ev.cover.clone(), out_of_domain: ood }
}

/// All `.txtpp` sources of a project, sorted
pub fn sources(files: &BTreeMap<String, Vec<u8>>) -> Vec<String> {
    files.keys().filter(|k| is_txtpp(k)).cloned().collect()
}
