pub mod fw;
pub mod gen;
pub mod model;
pub mod props;
pub mod run;
pub mod sched;
pub mod sys;
pub mod util;
