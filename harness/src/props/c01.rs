//! C01 — output conforms to the documented directive semantics.
//! Generated multi-file projects inside the domain of DESIGN §4.3 are built by the real code
//! (in-process, free-running controller) and every output / temp file / verdict is compared
//! with the reference model.

use crate::fw::{Ctx, PropInfo};
use crate::gen::{gen_project, GenOpts};
use crate::props::common::{judge_project, run_project, ProjectCase};
use crate::sched::Spec;
use rand::rngs::StdRng;
use rand::{Rng, SeedableRng};
use serde_json::{json, Value};
use txtpp::Mode;

pub fn info() -> PropInfo {
    PropInfo {
        id: "C01",
        level: "exploration",
        rule: "seeded grammar-aware generator: projects of 1-3 .txtpp sources (name shapes foo.ext.txtpp / foo.txtpp / foo.txtpp.ext, dotted stems, a non-ASCII name) in 4 directories plus static include targets; each source a random sequence of text lines (incl. directive look-alikes) and the seven directives in single/multi-line forms with 7 prefixes x 5 indentations x 3 continuation forms, LF/CRLF/mixed endings, with/without final newline, includes of static files / dependency outputs / temp files, tags created-stored-used across directive kinds, rationed error cases; built in-process with Build or InMemoryBuild, both trailing-newline settings, 1-4 threads. Non-trivial = inside the model's domain and at least one directive evaluated; distinct = distinct (files, options) hash. The model's coverage tuples (item kind x form x output newline state x EOF x owed-newline x tag state x indentation x line ending) are counted as evidence of state-machine coverage. Later additions to the generator: first lines of 8180-20000 bytes, temp targets named like a staging copy of the source's own output, the same temp target written twice with different bodies and read after each, 100 KB command outputs, commands killed by a signal, quoted multi-line commands.",
        assumptions: &[
            "reference model harness/src/model.rs is a faithful reading of README/CHANGELOG inside the domain DESIGN §4.3 (D1-D13); cases outside are executed but not judged",
            "commands restricted to the D7 vocabulary, /bin/sh and coreutils behave as usual",
            "D11: after an output-producing directive at EOF both readings of the final line ending are accepted",
        ],
        floor: (400, 4000),
        shards: (16, 16),
        run,
        replay,
    }
}

pub fn make_case(seed: u64) -> ProjectCase {
    let mut r = StdRng::seed_from_u64(seed);
    let p = gen_project(&mut r, &GenOpts::default());
    let mut c = ProjectCase::simple(p.files);
    c.trailing = p.trailing;
    c.threads = [1, 2, 2, 3, 4][r.gen_range(0..5)];
    c.mode = if r.gen_bool(0.25) { Mode::InMemoryBuild } else { Mode::Build };
    c.spec = if r.gen_bool(0.2) { Spec::Free { delay: Some((seed, 300)) } } else { Spec::Free { delay: None } };
    // leftovers of an earlier generation at the generated paths (the result must not depend on them)
    if r.gen_bool(0.3) {
        let pre = crate::model::evaluate(&c.files, "/nonexistent", c.trailing, &crate::model::sources(&c.files));
        if pre.out_of_domain.is_none() {
            for (path, acc) in pre.built.outputs.iter().map(|(k, v)| (k.clone(), v[0].clone())).chain(pre.built.temps.iter().map(|(k, v)| (k.clone(), v.clone()))) {
                let left: Vec<u8> = match r.gen_range(0..5) {
                    0 => continue,
                    1 => format!("{acc}stale tail of an older, longer version\n").into_bytes(),
                    2 => acc.as_bytes()[..acc.len() / 2].to_vec(),
                    3 => b"completely different old content\n".to_vec(),
                    _ => Vec::new(),
                };
                c.prestate.insert(path, left);
            }
        }
    }
    c
}

fn check(ctx: &mut Ctx, case: &ProjectCase, seed: u64) {
    let res = run_project(ctx, case);
    if let Some(why) = &res.expect.out_of_domain {
        ctx.count("out_of_domain_not_judged", 1);
        ctx.cover("out_of_domain_reasons", &why.chars().take(40).collect::<String>());
        return;
    }
    if matches!(res.outcome.verdict, crate::run::Verdict::Watchdog) {
        ctx.inconclusive(format!("watchdog on seed {seed}"));
        return;
    }
    for t in &res.expect.cover {
        ctx.cover("coverage_tuples", t);
    }
    match &res.expect.verdict {
        Ok(()) => ctx.count("expected_success", 1),
        Err(e) => {
            ctx.count("expected_error", 1);
            ctx.cover("error_kinds", &format!("{e:?}").chars().take(20).collect::<String>());
        }
    }
    if !res.expect.cover.is_empty() {
        ctx.distinct.insert(case.hash());
    }
    let problems = judge_project(case, &res);
    for (sig, msg) in problems {
        ctx.violation(format!("C01:{sig}"), format!("{msg}\n(seed {seed}, mode {:?}, trailing {}, threads {})", case.mode, case.trailing, case.threads), case.to_json());
    }
    ctx.sample(|| {
        let src = case.files.iter().find(|(k, _)| crate::model::is_txtpp(k)).map(|(k, v)| json!({"path": k, "text": String::from_utf8_lossy(v)}));
        json!({"seed": seed, "sources": crate::model::sources(&case.files), "first_source": src, "expected_verdict": format!("{:?}", res.expect.verdict), "observed": res.outcome.verdict.short(),
               "expected_outputs": res.expect.built.outputs.iter().map(|(k, v)| (k.clone(), v[0].clone())).collect::<std::collections::BTreeMap<_, _>>()})
    });
}

/// the same differential through the `txtpp` binary (flag mapping of main.rs included)
fn check_cli(ctx: &mut Ctx, case: &ProjectCase, seed: u64) {
    let root = ctx.scratch.fresh();
    crate::util::materialize(&root, &case.files, &case.dirs);
    crate::util::materialize(&root, &case.prestate, &[]);
    let before = crate::util::snap(&root);
    let cfg = case.cfg(&root);
    let o = crate::run::run_cli(&root, &cfg.cli_args(), &Default::default());
    let after = crate::util::snap(&root);
    ctx.evals += 1;
    ctx.count("cli_runs", 1);
    let expect = crate::model::evaluate(&case.files, &root.to_string_lossy(), case.trailing, &case.requested());
    ctx.scratch.discard(&root);
    if expect.out_of_domain.is_some() || o.timed_out {
        return;
    }
    let verdict = match o.code {
        Some(0) => crate::run::Verdict::Ok,
        Some(1) => crate::run::Verdict::Err(o.stderr.clone()),
        _ => {
            ctx.violation("C01:cli:abnormal-exit", o.short(), case.to_json());
            return;
        }
    };
    let res = crate::props::common::ProjectResult { root, outcome: crate::run::Outcome { verdict, trace: Default::default(), panics: vec![], wall: o.wall, late_tasks: 0 }, before, after, expect };
    for (sig, msg) in judge_project(case, &res) {
        ctx.violation(format!("C01:cli:{sig}"), format!("{msg}\n(through the binary: txtpp {}; seed {seed})", cfg.cli_args().join(" ")), case.to_json());
    }
}

fn run(ctx: &mut Ctx) {
    let n = ctx.tier.pick(2500, 25_000);
    let base = ctx.shard_seed().wrapping_mul(1_000_003);
    for i in 0..n {
        if !ctx.time_left() {
            break;
        }
        let seed = base + i;
        let case = make_case(seed);
        check(ctx, &case, seed);
        if i % 40 == 7 {
            check_cli(ctx, &case, seed);
        }
        if ctx.violations.len() >= 30 {
            break;
        }
    }
}

fn replay(ctx: &mut Ctx, case: &Value) {
    let c = ProjectCase::from_json(case);
    check(ctx, &c, case["seed"].as_u64().unwrap_or(0));
}
