//! C18 — no input or configuration makes txtpp panic or hang.
//! In-process fuzz (a dying shard process is itself evidence: the case being run is recorded
//! before every execution) + CLI option values. Oracles: panic hook of any thread, logical
//! deadlock predicate, abnormal exit status; the wall-clock watchdog only yields "inconclusive".

use crate::fw::{Ctx, PropInfo};
use crate::gen::HOSTILE;
use crate::run::{run_cli, run_inproc, CliOpts, RunCfg, Verdict};
use crate::sched::Spec;
use crate::util::{bytes_json, files_from_json, files_json, materialize, Files};
use rand::rngs::StdRng;
use rand::{Rng, SeedableRng};
use serde_json::{json, Value};
use txtpp::Mode;

pub fn info() -> PropInfo {
    PropInfo {
        id: "C18",
        level: "exploration",
        rule: "fuzz cases = 1-3 sources (+ include targets + pre-existing generated files, and in 12 % of the cases a directory symbolic link to a sibling, to the parent or to the directory itself) x mode {build, needed, verify, clean} x threads 0..16 x recursive on/off, executed in-process with the panic hook and the deadlock predicate armed. Source generators: (a) grammar-aware hostile lines outside the judged domain (Unicode blanks U+00A0/U+2003/VT/FF as indentation and around names, multi-byte prefixes followed by space-only continuation lines of every length, empty arguments, tag names that prefix each other, 20 kB lines, deep continuation blocks, directive look-alikes); (b) byte-level mutation of well-formed sources (invalid UTF-8, NUL, lone CR, truncation inside multi-byte characters, random splices); the same mutations applied to include targets and to leftovers at output/temp paths. Commands are neutralised by configuring /bin/echo as the shell (the run path is still exercised), absolute temp targets are rewritten to stay inside the scratch tree. CLI part: option values (-j 0, -j 1, -j 16, huge -j, empty / unresolvable shell, empty input string, missing base, no inputs). Non-trivial = the case contains at least one directive-like line or a non-UTF-8 byte; distinct = distinct case hashes. Later additions: the empty input list; nine pipe-heavy real commands x three modes x two thread counts; CLI runs started in a removed working directory; file links named like sources that point at plain files; the rawnames scenario (non-UTF-8 names) judged for panics and hangs.",
        assumptions: &["hangs are decided by the logical deadlock predicate of the hooks; a wall-clock watchdog expiry is reported as inconclusive", "commands are not fuzzed (shell = /bin/echo): a non-terminating command is out of domain"],
        floor: (3000, 100_000),
        shards: (16, 16),
        run,
        replay,
    }
}

const UBLANKS: [&str; 6] = ["\u{a0}", "\u{2003}", "\u{b}", "\u{c}", "\u{3000}", "\u{85}"];
const NAMES: [&str; 9] = ["", "include", "after", "run", "temp", "tag", "write", "inclde", "RUN"];
const PREFIXES: [&str; 9] = ["", "-", "// ", "\u{e9}", "\u{2713}\u{2713} ", "\u{1f600}", "#\t", "/* ", " \u{a0}"];

fn hostile_source(r: &mut StdRng) -> Vec<u8> {
    let mut ls: Vec<String> = vec![];
    if r.gen_bool(0.15) {
        // two tags really stored at the same time, then lines in which their names overlap / nest
        let pairs = [("ab", "bc", "abc"), ("FIRST_", "_LAST", "FIRST_LAST"), ("\u{e9}a", "a\u{e9}", "\u{e9}a\u{e9}"), ("T", "xT", "xTT"), ("ab", "ba", "abab")];
        let (a, b, line) = pairs[r.gen_range(0..pairs.len())];
        ls.push(format!("// TXTPP#tag {a}"));
        ls.push(format!("// TXTPP#write {}", [b, "v", "", "l1"][r.gen_range(0..4)]));
        ls.push(String::new());
        ls.push(format!("// TXTPP#tag {b}"));
        ls.push(format!("// TXTPP#write {}", [a, "w", ""][r.gen_range(0..3)]));
        ls.push(String::new());
        ls.push(line.to_string());
        if r.gen_bool(0.5) {
            ls.push(format!("{a} {b}"));
        }
    }
    let n = r.gen_range(0..14);
    for _ in 0..n {
        let ws: String = (0..r.gen_range(0..3)).map(|_| if r.gen_bool(0.6) { [" ", "\t"][r.gen_range(0..2)] } else { UBLANKS[r.gen_range(0..UBLANKS.len())] }).collect();
        match r.gen_range(0..10) {
            0..=3 => {
                let pre = PREFIXES[r.gen_range(0..PREFIXES.len())];
                let name = NAMES[r.gen_range(0..NAMES.len())];
                let sep = [" ", "", "\t", "\u{a0}", "  "][r.gen_range(0..5)];
                let arg = match name {
                    "include" | "after" => ["inc.txt", "", "missing", ".", "..", "sub", "a.txt", "self.txt", "bad.bin", "\u{e9}.txt", "t.tmp"][r.gen_range(0..11)].to_string(),
                    "temp" => ["t.tmp", "", ".", "sub/t.tmp", "x.txtpp", "\u{e9}.tmp", "a.txt", "nodir/x"][r.gen_range(0..8)].to_string(),
                    "tag" => ["T", "TT", "", "T T", "\u{e9}", "TAG", "ab", "bc", "\u{e9}a"][r.gen_range(0..9)].to_string(),
                    _ => HOSTILE[r.gen_range(0..HOSTILE.len())].to_string(),
                };
                ls.push(format!("{ws}{pre}TXTPP#{name}{sep}{arg}"));
                // continuation block in every form and length
                for _ in 0..r.gen_range(0..4) {
                    let k = r.gen_range(0..6);
                    let body = HOSTILE[r.gen_range(0..HOSTILE.len())];
                    ls.push(match k {
                        0 => format!("{ws}{pre}{body}"),
                        1 => format!("{ws}{}{body}", " ".repeat(r.gen_range(0..pre.len() + 2))),
                        2 => format!("{ws}{}", pre.trim_end()),
                        3 => format!("{ws}{}", " ".repeat(r.gen_range(0..pre.len() + 2))),
                        4 => format!("{ws}{}{body}", ["\u{e4}\u{f6}\u{fc}", "\u{2713}", "\u{1f600}", "\u{e9}"][r.gen_range(0..4)]),
                        _ => format!("{}{pre}{body}", &ws[..ws.char_indices().nth(1).map(|x| x.0).unwrap_or(0)]),
                    });
                }
            }
            4 => ls.push(format!("{ws}{}", (0..r.gen_range(0..5)).map(|_| HOSTILE[r.gen_range(0..HOSTILE.len())]).collect::<String>())),
            5 => ls.push(["T TT TAG \u{e9} T", "abc", "xabcbc", "T\u{e9}a"][r.gen_range(0..4)].to_string()),
            6 => ls.push(String::new()),
            7 => ls.push("x".repeat(if r.gen_bool(0.2) { 20_000 } else { r.gen_range(0..300) })),
            8 => ls.push(format!("{}TXTPP#", "\u{e9}".repeat(r.gen_range(0..4)))),
            _ => ls.push(UBLANKS[r.gen_range(0..UBLANKS.len())].repeat(r.gen_range(1..4))),
        }
    }
    let le = ["\n", "\r\n", "\r", "\n\r"][if r.gen_bool(0.8) { r.gen_range(0..2) } else { r.gen_range(0..4) }];
    let mut s = ls.join(le);
    if r.gen_bool(0.7) {
        s.push_str(le);
    }
    s.into_bytes()
}

fn mutate(b: &mut Vec<u8>, r: &mut StdRng) {
    let k = r.gen_range(1..5);
    for _ in 0..k {
        if b.is_empty() {
            b.extend_from_slice(&[0xff, b'\n']);
            continue;
        }
        let i = r.gen_range(0..b.len());
        match r.gen_range(0..9) {
            0 => b[i] = 0xff,
            1 => b[i] = 0,
            2 => b[i] = b'\r',
            3 => b.insert(i, 0xc3),
            4 => {
                b.truncate(i);
            }
            5 => b.insert(i, b'\n'),
            6 => {
                let j = r.gen_range(0..b.len());
                let (x, y) = (i.min(j), i.max(j));
                let chunk = b[x..y].to_vec();
                let at = r.gen_range(0..=b.len());
                for (o, c) in chunk.into_iter().enumerate() {
                    b.insert((at + o).min(b.len()), c);
                }
            }
            7 => b[i] = b[i].wrapping_add(0x80),
            _ => b.insert(i, b' '),
        }
    }
}

/// keep the fuzzer inside its scratch tree: no absolute temp targets, at most one `../`
fn sanitize(b: &mut Vec<u8>) {
    let needle = b"TXTPP#temp";
    let mut i = 0;
    while i + needle.len() <= b.len() {
        if &b[i..i + needle.len()] == needle {
            let mut j = i + needle.len();
            let mut ups = 0;
            let mut first = true;
            while j < b.len() && b[j] != b'\n' && b[j] != b'\r' {
                if first && b[j] != b' ' && b[j] != b'\t' {
                    first = false;
                    if b[j] == b'/' || b[j] == b'~' {
                        b[j] = b'x';
                    }
                }
                if j + 2 < b.len() && &b[j..j + 3] == b"../" {
                    ups += 1;
                    if ups > 1 {
                        b[j] = b'x';
                    }
                }
                j += 1;
            }
            i = j;
        } else {
            i += 1;
        }
    }
}

#[derive(Debug, Clone)]
struct Case {
    /// (link path, target text): directory links, possibly forming a cycle
    symlinks: Vec<(String, String)>,
    files: Files,
    mode: Mode,
    threads: usize,
    recursive: bool,
    trailing: bool,
    inputs: Vec<String>,
    /// build the tree first (verify / needed / clean then run over real outputs)
    prebuild: bool,
}

impl Case {
    fn json(&self) -> Value {
        json!({"symlinks": self.symlinks.iter().map(|(a, b)| vec![a.clone(), b.clone()]).collect::<Vec<_>>(), "files": files_json(&self.files), "mode": crate::run::mode_name(&self.mode), "threads": self.threads, "recursive": self.recursive, "trailing": self.trailing, "inputs": self.inputs, "prebuild": self.prebuild})
    }
    fn from(v: &Value) -> Self {
        Self {
            symlinks: v["symlinks"].as_array().map(|a| a.iter().filter_map(|x| Some((x.get(0)?.as_str()?.to_string(), x.get(1)?.as_str()?.to_string()))).collect()).unwrap_or_default(),
            files: files_from_json(&v["files"]),
            mode: crate::run::mode_from(v["mode"].as_str().unwrap_or("build")),
            threads: v["threads"].as_u64().unwrap_or(1) as usize,
            recursive: v["recursive"].as_bool().unwrap_or(true),
            trailing: v["trailing"].as_bool().unwrap_or(true),
            inputs: v["inputs"].as_array().map(|a| a.iter().filter_map(|x| x.as_str().map(String::from)).collect()).unwrap_or_else(|| vec![".".into()]),
            prebuild: v["prebuild"].as_bool().unwrap_or(false),
        }
    }
}

fn gen_case(r: &mut StdRng) -> Case {
    let mut files = Files::new();
    files.insert("inc.txt".into(), b"i1\ni2\n".to_vec());
    files.insert("sub/keep.txt".into(), b"k\n".to_vec());
    files.insert("bad.bin".into(), vec![0xff, 0xfe, 0, b'\n', 0xc3]);
    let names = ["a.txt.txtpp", "self.txt.txtpp", "sub/b.txtpp.md", "\u{e9}.txt.txtpp", "c.txtpp"];
    let nsrc = r.gen_range(1..=3);
    for k in 0..nsrc {
        let name = names[(k + r.gen_range(0..names.len())) % names.len()];
        let mut body = if r.gen_bool(0.5) {
            hostile_source(r)
        } else {
            // a well-formed source (C01 generator), then mutated at byte level
            let o = crate::gen::GenOpts { max_sources: 1, commands: true, ..Default::default() };
            let mut s = crate::gen::gen_source(r, &o, "", &["a.txt".to_string()], false, k).into_bytes();
            mutate(&mut s, r);
            s
        };
        sanitize(&mut body);
        files.insert(name.to_string(), body);
    }
    if r.gen_bool(0.3) {
        let mut b = b"i1\ni2\n".to_vec();
        mutate(&mut b, r);
        files.insert("inc.txt".into(), b);
    }
    // leftovers at generated paths
    if r.gen_bool(0.4) {
        for p in ["a.txt", "self.txt", "t.tmp", "sub/b.md", "c"] {
            if r.gen_bool(0.4) {
                let mut b = b"left over\n\xc3\xa9\n".to_vec();
                mutate(&mut b, r);
                files.insert(p.into(), b);
            }
        }
    }
    let mode = [Mode::Build, Mode::InMemoryBuild, Mode::Verify, Mode::Clean][r.gen_range(0..4)].clone();
    let inputs = match r.gen_range(0..6) {
        0 => vec!["a.txt".into()],
        1 => vec![".".into(), "sub".into(), "a.txt.txtpp".into()],
        2 => vec!["".into()],
        // the empty selection (library API): nothing is scheduled at all
        3 if r.gen_bool(0.3) => vec![],
        _ => vec![".".into()],
    };
    // directory links: to a sibling, to the parent, to the directory itself
    let mut symlinks = vec![];
    if r.gen_bool(0.12) {
        symlinks.push(match r.gen_range(0..4) {
            0 => ("loop".to_string(), ".".to_string()),
            1 => ("sub/up".to_string(), "..".to_string()),
            2 => ("sub/self".to_string(), ".".to_string()),
            _ => ("other".to_string(), "sub".to_string()),
        });
    }
    if r.gen_bool(0.08) {
        // a link named like a source whose target's real name is not a source name (the canonical
        // path has no .txtpp extension): a reported error at most
        symlinks.push((["tpl.md.txtpp", "sub/tpl.txtpp.md"][r.gen_range(0..2)].to_string(), ["inc.txt", "../inc.txt"][r.gen_range(0..2)].to_string()));
    }
    Case { symlinks, files, mode, threads: if r.gen_bool(0.1) { 0 } else { r.gen_range(0..=16) }, recursive: r.gen_bool(0.6), trailing: r.gen_bool(0.6), inputs, prebuild: r.gen_bool(0.25) }
}

fn check(ctx: &mut Ctx, c: &Case) {
    ctx.set_current(&c.json());
    let root = ctx.scratch.fresh();
    materialize(&root, &c.files, &[]);
    for (link, target) in &c.symlinks {
        let _ = std::os::unix::fs::symlink(target, root.join(link));
    }
    if c.prebuild && !matches!(c.mode, Mode::Build) {
        let pre = RunCfg { base: root.clone(), inputs: c.inputs.clone(), mode: Mode::Build, threads: c.threads, recursive: c.recursive, trailing: c.trailing, shell: "/bin/echo".into() };
        let _ = run_inproc(&pre, Spec::Free { delay: None }, Some(&root), false);
    }
    let cfg = RunCfg { base: root.clone(), inputs: c.inputs.clone(), mode: c.mode.clone(), threads: c.threads, recursive: c.recursive, trailing: c.trailing, shell: "/bin/echo".into() };
    let o = run_inproc(&cfg, Spec::Free { delay: None }, Some(&root), false);
    ctx.evals += 1;
    ctx.cover("modes", crate::run::mode_name(&c.mode));
    ctx.cover("thread_counts", &c.threads.to_string());
    ctx.cover("verdicts", match &o.verdict {
        Verdict::Ok => "ok",
        Verdict::Err(_) => "reported-error",
        Verdict::Deadlock => "deadlock",
        Verdict::HangInDrop => "hang-in-drop",
        Verdict::Livelock => "livelock",
        Verdict::StuckTask => "stuck-task",
        Verdict::MainPanic(_) => "panic",
        Verdict::Watchdog => "watchdog",
    });
    let interesting = c.files.iter().any(|(k, v)| k.contains("txtpp") && (v.windows(6).any(|w| w == b"TXTPP#") || std::str::from_utf8(v).is_err()));
    if interesting {
        ctx.distinct.insert(crate::util::hash_str(&c.json().to_string()));
    }
    let shape = format!("threads={}", if c.threads == 0 { "0" } else { "n" });
    match &o.verdict {
        Verdict::Deadlock => ctx.violation(format!("C18:hang:{}", crate::run::mode_name(&c.mode)), "the coordinator can never leave its loop (logical deadlock: nothing in flight, all results received, done != total)", c.json()),
        Verdict::HangInDrop => ctx.violation(format!("C18:hang-after-error:{}", crate::run::mode_name(&c.mode)), "Txtpp::run can never return: state unchanged for 10 s with nothing left that could change it (workers blocked in the result-channel send while Drop joins the pool after an error, or everything done and received and the coordinator still inside its loop / Drop)", c.json()),
        Verdict::Livelock => ctx.violation(format!("C18:hang:endless-directory-rescan:{}", if c.symlinks.is_empty() { "no-symlink" } else { "symlink-cycle" }), format!("one directory was queued for scanning more than 64 times in a single run (inputs {:?}, recursive {}, symbolic links {:?}): the run never finishes", c.inputs, c.recursive, c.symlinks), c.json()),
        Verdict::StuckTask => ctx.violation(format!("C18:hang:worker-stuck:{}", crate::run::mode_name(&c.mode)), "a worker task showed no progress for 20 s; the coordinator waits for its result forever", c.json()),
        Verdict::MainPanic(m) => ctx.violation(format!("C18:panic:main:{shape}"), format!("the thread calling Txtpp::run panicked: {m}; {:?}", o.panics), c.json()),
        Verdict::Watchdog => ctx.inconclusive("watchdog expired (not decided)"),
        _ => {}
    }
    if o.late_tasks > 0 {
        ctx.violation(format!("C18:workers-outlive-run:{}", crate::run::mode_name(&c.mode)), format!("Txtpp::run returned while {} worker task(s) were still running; panics afterwards: {:?}", o.late_tasks, o.panics), c.json());
    }
    if o.trace.panicked_tasks > 0 || (!o.panics.is_empty() && !matches!(o.verdict, Verdict::MainPanic(_))) {
        ctx.violation(format!("C18:panic:worker:{}", crate::run::mode_name(&c.mode)), format!("a txtpp thread panicked: {:?}", o.panics), c.json());
    }
    ctx.scratch.discard(&root);
}

fn cli_options(ctx: &mut Ctx) {
    let root = ctx.scratch.fresh();
    let mut files = Files::new();
    files.insert("a.txt.txtpp".into(), b"text\n-TXTPP#run echo hi\n".to_vec());
    materialize(&root, &files, &[]);
    let combos: Vec<Vec<&str>> = vec![
        vec!["-q", "-j", "0", "."],
        vec!["-q", "-j", "1", "."],
        vec!["-q", "-j", "16", "."],
        vec!["-q", "-j", "0", "-N", "."],
        vec!["verify", "-q", "-j", "0", "."],
        vec!["clean", "-q", "-j", "0", "."],
        vec!["-q", "-s", "", "."],
        vec!["-q", "-s", "   ", "."],
        vec!["-q", "-s", "/nonexistent/shell -c", "."],
        vec!["-q", "-s", "sh", "."],
        vec!["-q", ""],
        vec!["-q", "nosuchdir"],
        vec!["-q"],
        vec!["-q", "-r", "-n", "-N", "-j", "3", ".", ".", "a.txt"],
        vec!["-v", "."],
        vec!["clean", "-v", "."],
    ];
    for args in combos {
        let a: Vec<String> = args.iter().map(|s| s.to_string()).collect();
        let o = run_cli(&root, &a, &CliOpts::default());
        ctx.evals += 1;
        ctx.count("cli_option_runs", 1);
        ctx.distinct.insert(crate::util::hash_str(&format!("cli{a:?}")));
        let cj = json!({"kind": "cli", "args": a});
        if o.timed_out {
            ctx.inconclusive(format!("CLI watchdog for {a:?}"));
        } else if !matches!(o.code, Some(0) | Some(1) | Some(2)) {
            let threads0 = a.windows(2).any(|w| w[0] == "-j" && w[1] == "0");
            ctx.violation(
                format!("C18:cli:abnormal-exit:{}", if threads0 { "threads=0" } else { "other" }),
                format!("txtpp {a:?} ended with {}", o.short()),
                cj,
            );
        }
    }
    // the process working directory has been removed (a build directory deleted under a shell
    // that still sits in it): every mode reports an error or works with absolute inputs, no abort
    let abs_input = root.join("a.txt.txtpp").display().to_string();
    for sub in [vec!["-q"], vec!["-q", "-N"], vec!["verify", "-q"], vec!["clean", "-q"], vec!["-q", abs_input.as_str()], vec!["clean", "-q", abs_input.as_str()]] {
        let gone = root.join("gone-cwd");
        let _ = std::fs::create_dir_all(&gone);
        let script = format!("cd '{}' && rmdir '{}' && exec '{}' {}", gone.display(), gone.display(), crate::run::cli_bin().display(), sub.iter().map(|x| format!("'{x}'")).collect::<Vec<_>>().join(" "));
        let out = std::process::Command::new("timeout").args(["30", "sh", "-c", &script]).env_remove("TXTPP_FILE").env_remove("RUST_LOG").env("RUST_BACKTRACE", "0").output();
        ctx.evals += 1;
        ctx.count("cli_runs_in_a_removed_working_directory", 1);
        ctx.distinct.insert(crate::util::hash_str(&format!("gonecwd{sub:?}")));
        if let Ok(o) = out {
            let code = o.status.code();
            if code == Some(124) {
                ctx.violation("C18:hang:build", format!("txtpp {sub:?} started in a removed working directory did not end within 30 s"), json!({"kind": "cli"}));
            } else if !matches!(code, Some(0) | Some(1) | Some(2)) {
                ctx.violation("C18:cli:abnormal-exit:other", format!("txtpp {sub:?} started in a removed working directory ended with {:?}: {}", code, String::from_utf8_lossy(&o.stderr).lines().take(3).collect::<Vec<_>>().join(" | ")), json!({"kind": "cli"}));
            }
        }
    }
    ctx.scratch.discard(&root);
}

/// Real commands (default shell) that are heavy on the pipes: much more than a pipe buffer on
/// stderr, on stdout, on both at once; a command that reads its standard input; output that is not
/// valid UTF-8 or full of NUL bytes; a command that closes its stdout early. Every mode must come
/// back with success or a reported error.
const HEAVY_COMMANDS: [&str; 9] = [
    "head -c 300000 /dev/zero | tr '\\0' 'e' >&2",
    "head -c 300000 /dev/zero | tr '\\0' 'o'",
    "(head -c 200000 /dev/zero | tr '\\0' 'o'; head -c 200000 /dev/zero | tr '\\0' 'e' >&2)",
    "(head -c 200000 /dev/zero | tr '\\0' 'e' >&2; head -c 200000 /dev/zero | tr '\\0' 'o')",
    "cat",
    "head -c 100000 /dev/zero",
    "printf '\\377\\376\\n'",
    "exec 1>&-; head -c 100000 /dev/zero | tr '\\0' 'e' >&2; exit 3",
    "yes warning: something | head -n 20000 >&2; echo done",
];

fn heavy_commands(ctx: &mut Ctx) {
    let mut k = 0u64;
    for (ci, cmd) in HEAVY_COMMANDS.iter().enumerate() {
        for mode in [Mode::Build, Mode::InMemoryBuild, Mode::Verify] {
            for threads in [1usize, 4] {
                k += 1;
                if !ctx.claim(7_000_000 + k) {
                    continue;
                }
                let mut files = Files::new();
                files.insert("h.txt.txtpp".into(), format!("head\n-TXTPP#run {cmd}\ntail\n").into_bytes());
                files.insert("other.txt.txtpp".into(), b"other\n".to_vec());
                let root = ctx.scratch.fresh();
                materialize(&root, &files, &[]);
                let cfg = RunCfg { base: root.clone(), inputs: vec![".".into()], mode: mode.clone(), threads, recursive: false, trailing: true, shell: String::new() };
                let o = run_inproc(&cfg, Spec::Natural { delay: None }, Some(&root), false);
                ctx.evals += 1;
                ctx.count("heavy_command_runs", 1);
                ctx.cover("heavy_commands", &ci.to_string());
                let cj = json!({"kind": "heavy-command", "command": cmd, "mode": crate::run::mode_name(&mode), "threads": threads});
                ctx.distinct.insert(crate::util::hash_str(&cj.to_string()));
                let name = crate::run::mode_name(&mode);
                match &o.verdict {
                    Verdict::Ok | Verdict::Err(_) => {}
                    Verdict::Watchdog => ctx.inconclusive("watchdog expired (heavy command)"),
                    Verdict::StuckTask => ctx.violation(format!("C18:hang:worker-stuck:{name}"), format!("the worker running `{cmd}` showed no progress for 20 s (the command itself finishes in milliseconds when its pipes are drained); the coordinator waits for its result forever"), cj.clone()),
                    Verdict::MainPanic(m) => ctx.violation("C18:panic:main:threads=n".to_string(), format!("the thread calling Txtpp::run panicked: {m}"), cj.clone()),
                    other => ctx.violation(format!("C18:hang:{name}"), format!("run with command `{cmd}` ended as {}", other.short()), cj.clone()),
                }
                if o.trace.panicked_tasks > 0 || (!o.panics.is_empty() && !matches!(o.verdict, Verdict::MainPanic(_))) {
                    ctx.violation(format!("C18:panic:worker:{name}"), format!("a txtpp thread panicked while running `{cmd}`: {:?}", o.panics), cj);
                }
                ctx.scratch.discard(&root);
            }
        }
    }
}

fn run(ctx: &mut Ctx) {
    let mut r = StdRng::seed_from_u64(ctx.shard_seed());
    if ctx.shard == 0 {
        cli_options(ctx);
    }
    heavy_commands(ctx);
    if ctx.claim(7_500_000) || ctx.claim(7_500_001) {
        // file and directory names that are not valid UTF-8: no panic, no hang in any mode
        let (findings, cj) = crate::props::rawnames::scenario(ctx, &mut r);
        for f in findings.iter().filter(|f| ["PANIC", "DEADLOCK", "HANG", "STUCK", "LIVELOCK"].iter().any(|w| f.msg.contains(w))) {
            ctx.violation(format!("C18:{}:{}", if f.msg.contains("PANIC") { "panic:main" } else { "hang" }, f.mode), format!("sources with names that are not valid UTF-8: {}", f.msg), cj.clone());
        }
    }
    let n = ctx.tier.pick(6000, 150_000);
    for i in 0..n {
        if !ctx.time_left() || ctx.violations.len() > 30 {
            break;
        }
        let c = gen_case(&mut r);
        check(ctx, &c);
        if i == 0 {
            ctx.sample(|| json!({"sources": c.files.iter().filter(|(k, _)| k.contains("txtpp")).map(|(k, v)| (k.clone(), bytes_json(v))).collect::<std::collections::BTreeMap<_, _>>(), "mode": crate::run::mode_name(&c.mode), "threads": c.threads}));
        }
    }
}

fn replay(ctx: &mut Ctx, v: &Value) {
    if v["kind"].as_str() == Some("cli") {
        cli_options(ctx);
        return;
    }
    if v["kind"].as_str() == Some("raw-names") {
        let mut r = StdRng::seed_from_u64(3);
        let (findings, cj) = crate::props::rawnames::scenario(ctx, &mut r);
        for f in findings.iter().filter(|f| ["PANIC", "DEADLOCK", "HANG", "STUCK", "LIVELOCK"].iter().any(|w| f.msg.contains(w))) {
            ctx.violation(format!("C18:{}:{}", if f.msg.contains("PANIC") { "panic:main" } else { "hang" }, f.mode), f.msg.clone(), cj.clone());
        }
        return;
    }
    if v["kind"].as_str() == Some("heavy-command") {
        // the claim files of a replay directory are fresh: the whole block runs again
        heavy_commands(ctx);
        return;
    }
    check(ctx, &Case::from(v));
}
