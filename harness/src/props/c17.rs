//! C17 — run commands execute in the source's directory with the documented contract.
//! The command observes its own world (pwd, argv via a recorder shell, TXTPP_FILE) and the
//! result lands in the output; a CLI sample is also watched at the execve/chdir syscalls.

use crate::fw::{Ctx, PropInfo};
use crate::run::{cli_bin, run_cli, run_inproc, CliOpts, RunCfg, Verdict};
use crate::sched::Spec;
use crate::util::{materialize, show, Files};
use rand::rngs::StdRng;
use rand::{Rng, SeedableRng};
use serde_json::{json, Value};
use std::path::{Path, PathBuf};
use txtpp::Mode;

pub fn info() -> PropInfo {
    PropInfo {
        id: "C17",
        level: "exploration",
        rule: "projects with one run-bearing source at depth 0..3 below the base directory (plus a sibling that includes it, so that second-pass runs are covered) x {process cwd == base, cwd inside base, cwd unrelated ('/'), base given relative to the cwd} x {library entry in-process, CLI} x {default shell, overriding recorder script printing argc / each argument / pwd / TXTPP_FILE, with extra configured arguments} x {single-line, multi-line commands with empty and padded continuation lines} x exit codes {0, 1, 2, 255, killed by signal}. Oracle: the working directory reported by the command equals the canonical directory of its source; the shell receives exactly [configured args..., command] with command = argument lines joined by single spaces; TXTPP_FILE designates the source (absolute path, or resolving to it from the base directory or from the command's cwd); non-zero / signal exit fails the build; the binary refuses to start with TXTPP_FILE set and a command invoking txtpp fails. CLI sample under strace: the execve issued by txtpp has that argv, cwd and environment. Non-trivial = source below the base directory or base != cwd or non-default shell or multi-line command; distinct = distinct configurations. Later additions: sources outside the base directory in a sibling whose name extends the base's name; directory names that are not valid UTF-8 (working directory as hex dump, recursion guard); commands with up to 200 KB on stderr around / interleaved with stdout; CLI shell-option spellings incl. verify -s, unresolvable configured shells, a working-directory entry named sh; the includer named alone (source reached as a dependency); three ordered sources with two identical commands each; SHELL set to /bin/false etc.",
        assumptions: &["TXTPP_FILE: README says absolute path, code passes the base-relative rendering: both accepted (DESIGN §4.3)", "Linux, /bin/sh"],
        floor: (150, 2000),
        shards: (16, 16),
        run,
        replay,
    }
}

#[derive(Debug, Clone)]
struct Case {
    depth: usize,
    cwd_kind: u8,
    via_cli: bool,
    recorder: bool,
    extra_args: Vec<String>,
    /// argument lines of the command (first line first)
    cmd_lines: Vec<String>,
    exit: String,
    threads: usize,
    with_includer: bool,
    mode: Mode,
    /// 0 '.', 1 the top-level directory containing the source, 2 the source by output name
    input_kind: u8,
    recorder_relative: bool,
}

impl Case {
    fn json(&self) -> Value {
        json!({"depth": self.depth, "cwd_kind": self.cwd_kind, "via_cli": self.via_cli, "recorder": self.recorder, "extra_args": self.extra_args, "cmd_lines": self.cmd_lines, "exit": self.exit, "threads": self.threads, "with_includer": self.with_includer, "mode": crate::run::mode_name(&self.mode), "input_kind": self.input_kind, "recorder_relative": self.recorder_relative})
    }
    fn from(v: &Value) -> Self {
        let strs = |k: &str| v[k].as_array().map(|a| a.iter().filter_map(|x| x.as_str().map(String::from)).collect()).unwrap_or_default();
        Self {
            depth: v["depth"].as_u64().unwrap_or(0) as usize,
            cwd_kind: v["cwd_kind"].as_u64().unwrap_or(0) as u8,
            via_cli: v["via_cli"].as_bool().unwrap_or(false),
            recorder: v["recorder"].as_bool().unwrap_or(false),
            extra_args: strs("extra_args"),
            cmd_lines: strs("cmd_lines"),
            exit: v["exit"].as_str().unwrap_or("0").to_string(),
            threads: v["threads"].as_u64().unwrap_or(2) as usize,
            with_includer: v["with_includer"].as_bool().unwrap_or(false),
            mode: crate::run::mode_from(v["mode"].as_str().unwrap_or("build")),
            input_kind: v["input_kind"].as_u64().unwrap_or(0) as u8,
            recorder_relative: v["recorder_relative"].as_bool().unwrap_or(false),
        }
    }
}

const RECORDER: &str = "#!/bin/sh\nprintf 'argc=%s\\n' \"$#\"\nfor a in \"$@\"; do printf 'arg=[%s]\\n' \"$a\"; done\nprintf 'cwd=%s\\n' \"$(pwd -P)\"\nprintf 'file=%s\\n' \"$TXTPP_FILE\"\n";

fn dir_at(depth: usize) -> String {
    ["", "a", "a/b", "a/b/c"][depth.min(3)].to_string()
}

fn expected_command(lines: &[String]) -> String {
    // first line trimmed on both sides, later lines right-trimmed, joined by single spaces
    let blank = |c: char| c == ' ' || c == '\t';
    let mut parts: Vec<String> = vec![];
    for (i, l) in lines.iter().enumerate() {
        parts.push(if i == 0 { l.trim_matches(blank).to_string() } else { l.trim_end_matches(blank).to_string() });
    }
    parts.join(" ")
}

fn check(ctx: &mut Ctx, c: &Case) {
    let mut c = c.clone();
    if c.recorder {
        c.exit = "0".into(); // the recorder shell does not execute the command
    }
    let c = &c;
    let parent = ctx.scratch.fresh();
    let root = parent.join("proj");
    let dir = dir_at(c.depth);
    let src_rel = if dir.is_empty() { "r.txt.txtpp".to_string() } else { format!("{dir}/r.txt.txtpp") };
    let src_dir_abs = if dir.is_empty() { root.clone() } else { root.join(&dir) };
    let mut files = Files::new();
    for d in ["a/b/c/keep.txt", "z/keep.txt"] {
        files.insert(d.into(), b"k\n".to_vec());
    }
    let cmd = expected_command(&c.cmd_lines);
    let mut s = String::from("begin\n");
    if !c.recorder {
        s.push_str("-TXTPP#run pwd -P\n=\n-TXTPP#run echo \"$TXTPP_FILE\"\n=\n");
    }
    // the command under test
    for (i, l) in c.cmd_lines.iter().enumerate() {
        if i == 0 {
            s.push_str(&format!("// TXTPP#run {l}\n"));
        } else {
            s.push_str(&format!("// {l}\n"));
        }
    }
    s.push_str("=\n");
    if c.exit != "0" {
        s.push_str(&format!("-TXTPP#run {}\n=\n", if c.exit == "signal" { "kill -KILL $$".to_string() } else { format!("exit {}", c.exit) }));
    }
    s.push_str("end\n");
    files.insert(src_rel.clone(), s.into_bytes());
    // input kind 3: only the includer is named, so the source under test enters the build as a
    // dependency; with a source at depth >= 2 the includer sits above it (in `a`), otherwise beside (`z`)
    let inc_dir = if c.input_kind == 3 && c.depth >= 2 { "a" } else { "z" };
    if c.with_includer {
        // a second-pass run: the includer has a dependency first, then a command
        let target = crate::gen::rel(inc_dir, &src_rel[..src_rel.len() - 6]);
        files.insert(format!("{inc_dir}/inc.txt.txtpp"), format!("-TXTPP#include {target}\n-TXTPP#run pwd -P\n").into_bytes());
    }
    materialize(&root, &files, &[]);
    let rec_path = parent.join("rec.sh");
    std::fs::write(&rec_path, RECORDER).unwrap();
    let _ = std::process::Command::new("chmod").arg("+x").arg(&rec_path).status();
    // the shell may be configured by a path relative to the process working directory
    let rec_spelling = if c.recorder_relative {
        match (c.via_cli, c.cwd_kind) {
            // CLI: a relative PATH entry (`relbin`, prepended for this run) holds a copy named `recsh`
            (true, _) => "recsh".to_string(),
            (false, 0) => "../rec.sh".to_string(),
            (false, 1) => "../../rec.sh".to_string(),
            // cwd is the directory that holds rec.sh: the bare name (not on PATH) names it
            (false, 3) => "rec.sh".to_string(),
            _ => rec_path.display().to_string(),
        }
    } else {
        rec_path.display().to_string()
    };
    let shell = if c.recorder { format!("{} {}", rec_spelling, c.extra_args.join(" ")).trim().to_string() } else { String::new() };
    let (cwd, base): (PathBuf, PathBuf) = match c.cwd_kind {
        1 => (root.join("a"), root.clone()),
        2 => (PathBuf::from("/"), root.clone()),
        3 => (parent.clone(), PathBuf::from("proj")),
        _ => (root.clone(), root.clone()),
    };
    let mut inputs: Vec<String> = match c.input_kind {
        1 if c.depth > 0 => vec!["a".into()],
        2 => vec![src_rel[..src_rel.len() - 6].to_string()],
        3 if c.with_includer => vec![format!("{inc_dir}/inc.txt")],
        _ => vec![".".into()],
    };
    if c.with_includer && c.input_kind != 0 && c.input_kind != 3 {
        inputs.push("z".into());
    }
    let cfg = RunCfg { base, inputs, mode: c.mode.clone(), threads: c.threads, recursive: true, trailing: true, shell };
    let mut strace_prefix = None;
    let ok: bool;
    let vtext: String;
    if c.via_cli {
        let mut cfg2 = cfg.clone();
        cfg2.base = root.clone();
        let prefix = ctx.scratch.root.join("strace").join("t");
        let _ = std::fs::remove_dir_all(prefix.parent().unwrap());
        let _ = std::fs::create_dir_all(prefix.parent().unwrap());
        strace_prefix = Some(prefix.clone());
        let mut env = vec![];
        if c.recorder && c.recorder_relative {
            let _ = std::fs::create_dir_all(root.join("relbin"));
            let _ = std::fs::copy(&rec_path, root.join("relbin/recsh"));
            let _ = std::process::Command::new("chmod").arg("+x").arg(root.join("relbin/recsh")).status();
            env.push(("PATH".to_string(), format!("relbin:{}", std::env::var("PATH").unwrap_or_default())));
        }
        let o = run_cli(&root, &cfg2.cli_args(), &CliOpts { strace_prefix: Some(prefix), env, ..Default::default() });
        ctx.count("straced_cli_runs", 1);
        if o.timed_out || !matches!(o.code, Some(0) | Some(1)) {
            ctx.violation("C17:cli-abnormal-exit", o.short(), c.json());
            ctx.scratch.discard(&parent);
            return;
        }
        ok = o.code == Some(0);
        vtext = o.short();
    } else {
        let o = run_inproc(&cfg, Spec::Free { delay: None }, Some(&cwd), false);
        let _ = std::env::set_current_dir("/");
        match &o.verdict {
            Verdict::Ok | Verdict::Err(_) => {}
            Verdict::Watchdog => {
                ctx.inconclusive("watchdog");
                ctx.scratch.discard(&parent);
                return;
            }
            other => {
                ctx.violation("C17:abnormal-termination", other.short(), c.json());
                ctx.scratch.discard(&parent);
                return;
            }
        }
        ok = o.verdict.is_ok();
        vtext = o.verdict.short();
    }
    ctx.evals += 1;
    ctx.cover("cwd_kinds", &c.cwd_kind.to_string());
    ctx.cover("depths", &c.depth.to_string());
    ctx.cover("entries", if c.via_cli { "cli" } else { "library" });
    ctx.cover("exit_codes", &c.exit);
    if c.depth > 0 || c.cwd_kind != 0 || c.recorder || c.cmd_lines.len() > 1 {
        ctx.distinct.insert(crate::util::hash_str(&c.json().to_string()));
    }
    let sig_ctx = format!("depth{}:cwd{}:{}", c.depth.min(1), c.cwd_kind, if c.via_cli { "cli" } else { "lib" });
    if c.exit != "0" {
        if ok {
            ctx.violation(format!("C17:nonzero-exit-accepted:{}", c.exit), format!("a command ending with {} did not fail the build", c.exit), c.json());
        }
        ctx.scratch.discard(&parent);
        return;
    }
    if !ok {
        ctx.violation(format!("C17:run-failed:{sig_ctx}"), format!("build with well-formed run commands failed (source {src_rel}, cwd kind {}, base {:?}): {vtext}", c.cwd_kind, cfg.base), c.json());
        ctx.scratch.discard(&parent);
        return;
    }
    if !matches!(c.mode, Mode::Build | Mode::InMemoryBuild) {
        ctx.scratch.discard(&parent);
        return;
    }
    let out = std::fs::read(root.join(&src_rel[..src_rel.len() - 6])).unwrap_or_default();
    let text = String::from_utf8_lossy(&out).to_string();
    let want_dir = src_dir_abs.to_string_lossy().to_string();
    let file_ok = |f: &str| -> bool {
        let abs = root.join(&src_rel);
        let p = Path::new(f);
        (p.is_absolute() && p.canonicalize().ok() == abs.canonicalize().ok()) || root.join(f).canonicalize().ok() == abs.canonicalize().ok() || src_dir_abs.join(f).canonicalize().ok() == abs.canonicalize().ok()
    };
    if !c.recorder {
        let sections: Vec<&str> = text.split("=\n").collect();
        // begin\n<pwd>\n | <file>\n | <cmd output> | end
        let pwd = sections.first().map(|s| s.trim_start_matches("begin\n").trim_end()).unwrap_or("");
        if pwd != want_dir {
            ctx.violation(format!("C17:wrong-working-directory:{sig_ctx}"), format!("`pwd -P` in {src_rel} printed {pwd:?}, expected {want_dir:?}"), c.json());
        }
        let file = sections.get(1).map(|s| s.trim_end()).unwrap_or("");
        if !file_ok(file) {
            ctx.violation(format!("C17:txtpp-file-wrong:{sig_ctx}"), format!("TXTPP_FILE={file:?} does not designate {src_rel} (base {})", root.display()), c.json());
        }
        // command output: `echo` of words shows the joining
        let got = sections.get(2).map(|s| s.trim_end()).unwrap_or("");
        if cmd.starts_with("printf '%s|' \"") {
            // quoted: blank continuation lines must survive as spaces inside the quotes
            let want = format!("{}|", cmd["printf '%s|' \"".len()..].trim_end_matches('"'));
            if got != want {
                ctx.violation("C17:command-joining", format!("command lines {:?} produced {got:?}, expected {want:?} (joined command {cmd:?})", c.cmd_lines), c.json());
            }
        } else if cmd.starts_with("printf '%s|' ") {
            let words: Vec<&str> = cmd["printf '%s|' ".len()..].split(' ').filter(|w| !w.is_empty()).collect();
            let want: String = words.iter().map(|w| format!("{w}|")).collect();
            if got != want {
                ctx.violation("C17:command-joining", format!("command lines {:?} produced {got:?}, expected {want:?} (joined command {cmd:?})", c.cmd_lines), c.json());
            }
        }
    } else {
        // recorder output
        let mut argc = None;
        let mut args: Vec<String> = vec![];
        let mut cwd_seen = String::new();
        let mut file_seen = String::new();
        for l in text.lines() {
            if let Some(x) = l.strip_prefix("argc=") {
                argc = x.parse::<usize>().ok();
            } else if let Some(x) = l.strip_prefix("arg=[") {
                args.push(x.trim_end_matches(']').to_string());
            } else if let Some(x) = l.strip_prefix("cwd=") {
                cwd_seen = x.to_string();
            } else if let Some(x) = l.strip_prefix("file=") {
                file_seen = x.to_string();
            }
        }
        let mut want_args = c.extra_args.clone();
        want_args.push(cmd.clone());
        if argc != Some(want_args.len()) || args != want_args {
            ctx.violation("C17:shell-argv", format!("configured shell received argc={argc:?} args={args:?}, expected {want_args:?} (output {})", show(&out)), c.json());
        }
        if cwd_seen != want_dir {
            ctx.violation(format!("C17:wrong-working-directory:{sig_ctx}"), format!("recorder saw cwd {cwd_seen:?}, expected {want_dir:?}"), c.json());
        }
        if !file_ok(&file_seen) {
            ctx.violation(format!("C17:txtpp-file-wrong:{sig_ctx}"), format!("recorder saw TXTPP_FILE={file_seen:?}"), c.json());
        }
    }
    if c.with_includer {
        let inc = String::from_utf8_lossy(&std::fs::read(root.join(inc_dir).join("inc.txt")).unwrap_or_default()).to_string();
        let last = inc.lines().filter(|l| !l.is_empty()).last().unwrap_or("");
        if !c.recorder && last != root.join(inc_dir).to_string_lossy() {
            ctx.violation(format!("C17:wrong-working-directory-second-pass:{sig_ctx}"), format!("second-pass `pwd -P` in {inc_dir}/inc.txt.txtpp printed {last:?}"), c.json());
        }
    }
    // syscall view
    if let Some(prefix) = strace_prefix {
        let tr = crate::sys::parse_strace(prefix.parent().unwrap(), &root);
        ctx.count("syscalls_classified", tr.lines_by_txtpp as u64);
        let ok_execs: Vec<&crate::sys::Exec> = tr.execs.iter().filter(|e| e.ok).collect();
        ctx.count("execs_seen", ok_execs.len() as u64);
        for e in ok_execs {
            if e.argv.last().map(|x| x.as_str()) == Some(cmd.as_str()) {
                if !c.recorder && (e.argv.len() != 3 || e.argv[1] != "-c") {
                    ctx.violation("C17:syscall-argv", format!("execve argv {:?}, expected [sh, -c, {cmd:?}]", e.argv), c.json());
                }
                if e.cwd != src_dir_abs {
                    ctx.violation(format!("C17:syscall-cwd:{sig_ctx}"), format!("execve of the command happened in {:?}, expected {:?}", e.cwd, src_dir_abs), c.json());
                }
                match &e.txtpp_file {
                    Some(f) if file_ok(f) => {}
                    other => ctx.violation("C17:syscall-env", format!("TXTPP_FILE in the command's environment: {other:?}"), c.json()),
                }
            }
        }
    }
    ctx.scratch.discard(&parent);
}

/// Sources *outside* the base directory whose absolute path merely starts with the base's
/// characters (`site` vs `site-common`): reached as a named input and as a dependency. The command
/// runs in the source's directory and TXTPP_FILE designates the source (absolute, or resolving from
/// the base directory or from the command's working directory).
fn outside_base(ctx: &mut Ctx, r: &mut StdRng) {
    let parent = ctx.scratch.fresh();
    let base_name = ["site", "a", "proj.d"][r.gen_range(0..3)];
    let sibling = format!("{base_name}{}", ["-common", "2", ".bak", "_x/in"][r.gen_range(0..4)]);
    let base = parent.join(base_name);
    let body = "-TXTPP#run pwd -P\n=\n-TXTPP#run echo \"$TXTPP_FILE\"\n";
    let mut files = Files::new();
    files.insert(format!("{sibling}/footer.txt.txtpp"), body.as_bytes().to_vec());
    files.insert(format!("{base_name}/inside.txt.txtpp"), body.as_bytes().to_vec());
    let up = "../".repeat(1);
    files.insert(format!("{base_name}/page.txt.txtpp"), format!("-TXTPP#include {up}{sibling}/footer.txt\npage\n").into_bytes());
    materialize(&parent, &files, &[]);
    let as_dependency = r.gen_bool(0.5);
    let via_cli = r.gen_bool(0.3);
    let inputs: Vec<String> = if as_dependency { vec!["page.txt".into(), "inside.txt".into()] } else { vec![format!("../{sibling}/footer.txt"), "inside.txt.txtpp".into()] };
    let threads = [1usize, 2, 4][r.gen_range(0..3)];
    let cj = json!({"kind": "outside-base", "base": base_name, "sibling": sibling, "as_dependency": as_dependency, "via_cli": via_cli, "threads": threads});
    let cfg = RunCfg { base: base.clone(), inputs, mode: Mode::Build, threads, recursive: false, trailing: true, shell: String::new() };
    let ok = if via_cli {
        let o = run_cli(&base, &cfg.cli_args(), &CliOpts::default());
        if o.timed_out {
            ctx.inconclusive("CLI watchdog (outside base)");
            ctx.scratch.discard(&parent);
            return;
        }
        o.code == Some(0)
    } else {
        let o = run_inproc(&cfg, Spec::Free { delay: None }, Some(&base), false);
        let _ = std::env::set_current_dir("/");
        if matches!(o.verdict, Verdict::Watchdog) {
            ctx.inconclusive("watchdog (outside base)");
            ctx.scratch.discard(&parent);
            return;
        }
        o.verdict.is_ok()
    };
    ctx.evals += 1;
    ctx.count("sources_outside_the_base_directory", 1);
    if !ok {
        ctx.violation("C17:run-failed:outside-base", "build with a run command in a source outside the base directory failed".to_string(), cj);
        ctx.scratch.discard(&parent);
        return;
    }
    for (src_rel, label) in [(format!("{sibling}/footer.txt.txtpp"), "outside"), (format!("{base_name}/inside.txt.txtpp"), "inside")] {
        let abs = parent.join(&src_rel);
        let dir = abs.parent().unwrap().to_path_buf();
        let out = String::from_utf8_lossy(&std::fs::read(parent.join(&src_rel[..src_rel.len() - 6])).unwrap_or_default()).to_string();
        let mut parts = out.split("=\n");
        let pwd = parts.next().unwrap_or("").trim_end().to_string();
        let file = parts.next().unwrap_or("").trim_end().to_string();
        if pwd != dir.to_string_lossy() {
            ctx.violation("C17:wrong-working-directory:outside-base", format!("`pwd -P` in {src_rel} ({label} the base {base_name}) printed {pwd:?}, expected {:?}", dir), cj.clone());
        }
        let p = Path::new(&file);
        let designates = !file.is_empty() && ((p.is_absolute() && p.canonicalize().ok() == abs.canonicalize().ok()) || base.join(p).canonicalize().ok() == abs.canonicalize().ok() || dir.join(p).canonicalize().ok() == abs.canonicalize().ok());
        if !designates {
            ctx.violation("C17:txtpp-file-wrong:outside-base", format!("TXTPP_FILE={file:?} does not designate {src_rel} ({label} the base directory {})", base.display()), cj.clone());
        }
    }
    ctx.distinct.insert(crate::util::hash_str(&cj.to_string()));
    ctx.scratch.discard(&parent);
}

/// Directory names that are not valid UTF-8 (Latin-1 `caf\xe9`): at, below and above the base
/// directory. The command must run in the source's directory (observed as a hex dump of `pwd -P`).
fn raw_directory(ctx: &mut Ctx, r: &mut StdRng) {
    use std::os::unix::ffi::{OsStrExt, OsStringExt};
    let parent = ctx.scratch.fresh();
    let raw = std::ffi::OsString::from_vec([&b"caf\xe9"[..], &b"na\xefve dir"[..], &b"\xff\xfe"[..]][r.gen_range(0..3)].to_vec());
    let position = r.gen_range(0..3u8);
    // (base directory, source directory)
    let (base, src_dir): (PathBuf, PathBuf) = match position {
        0 => (parent.join(&raw), parent.join(&raw)),
        1 => (parent.join("proj"), parent.join("proj").join(&raw).join("deep")),
        _ => (parent.join(&raw).join("proj"), parent.join(&raw).join("proj").join("a")),
    };
    if std::fs::create_dir_all(&src_dir).is_err() || std::fs::create_dir_all(&base).is_err() {
        ctx.count("raw_directory_names_refused_by_the_file_system", 1);
        ctx.scratch.discard(&parent);
        return;
    }
    let hexdump = "od -An -v -tx1 | tr -d ' \\n'";
    let body = format!("begin\n-TXTPP#run pwd -P | {hexdump}\n\nend\n");
    let _ = std::fs::write(src_dir.join("s.txt.txtpp"), body);
    let via_cli = r.gen_bool(0.4);
    let threads = [1usize, 2][r.gen_range(0..2)];
    let pos_name = ["base itself", "below the base", "above the base"][position as usize];
    let cj = json!({"kind": "raw-directory", "name": raw.to_string_lossy(), "position": pos_name, "via_cli": via_cli, "threads": threads});
    let cfg = RunCfg { base: base.clone(), inputs: vec![".".into()], mode: Mode::Build, threads, recursive: true, trailing: true, shell: String::new() };
    let (ok, note) = if via_cli {
        let o = run_cli(&base, &cfg.cli_args(), &CliOpts::default());
        if o.timed_out {
            ctx.inconclusive("CLI watchdog (raw directory)");
            ctx.scratch.discard(&parent);
            return;
        }
        (o.code == Some(0), o.short())
    } else {
        let o = run_inproc(&cfg, Spec::Free { delay: None }, Some(&base), false);
        let _ = std::env::set_current_dir("/");
        if matches!(o.verdict, Verdict::Watchdog) {
            ctx.inconclusive("watchdog (raw directory)");
            ctx.scratch.discard(&parent);
            return;
        }
        (o.verdict.is_ok(), o.verdict.short())
    };
    ctx.evals += 1;
    ctx.count("sources_below_non_utf8_directory_names", 1);
    if !ok {
        ctx.violation("C17:run-failed:non-utf8-directory", format!("a run command in a source whose path contains a directory name that is not valid UTF-8 failed: {note}"), cj);
        ctx.scratch.discard(&parent);
        return;
    }
    let out = String::from_utf8_lossy(&std::fs::read(src_dir.join("s.txt")).unwrap_or_default()).to_string();
    let got = out.lines().nth(1).unwrap_or("").trim().to_string();
    let mut want_bytes = src_dir.as_os_str().as_bytes().to_vec();
    want_bytes.push(b'\n');
    let want: String = want_bytes.iter().map(|b| format!("{b:02x}")).collect();
    if got != want {
        ctx.violation("C17:wrong-working-directory:non-utf8-directory", format!("hex dump of `pwd -P` is {got}, expected {want} ({})", src_dir.display()), cj.clone());
    }
    // the recursion guard holds below such a directory as well: a command that invokes txtpp fails
    let _ = std::fs::create_dir_all(src_dir.join("inner"));
    let _ = std::fs::write(src_dir.join("inner/i.txt.txtpp"), b"inner\n");
    let _ = std::fs::write(src_dir.join("outer.txt.txtpp"), format!("-TXTPP#run {} -q inner\n", cli_bin().display()));
    let cfg2 = RunCfg { base: base.clone(), inputs: vec![".".into()], mode: Mode::Build, threads, recursive: true, trailing: true, shell: String::new() };
    let ok2 = if via_cli {
        let o = run_cli(&base, &cfg2.cli_args(), &CliOpts::default());
        !o.timed_out && o.code == Some(0)
    } else {
        let o = run_inproc(&cfg2, Spec::Free { delay: None }, Some(&base), false);
        let _ = std::env::set_current_dir("/");
        o.verdict.is_ok()
    };
    ctx.evals += 1;
    ctx.count("guard_runs", 1);
    // (the recursive outer run builds inner/ itself; what matters is that the *command* fails, and
    // with it the outer run)
    if ok2 {
        ctx.violation("C17:guard-recursion", "below a directory whose name is not valid UTF-8, a run command invoking txtpp succeeded: the binary started although TXTPP_FILE was set".to_string(), cj.clone());
    }
    ctx.distinct.insert(crate::util::hash_str(&cj.to_string()));
    ctx.scratch.discard(&parent);
}

/// "Its stdout becomes the directive output": a command that also writes far more than a pipe
/// buffer to stderr (before, after and interleaved with its stdout) contributes exactly its stdout.
fn loud_stderr(ctx: &mut Ctx, r: &mut StdRng) {
    let root = ctx.scratch.fresh();
    let n_out = [0usize, 10, 70_000, 150_000][r.gen_range(0..4)];
    let n_err = [70_000usize, 200_000][r.gen_range(0..2)];
    let out_cmd = format!("head -c {n_out} /dev/zero | tr '\\0' 'o'");
    let err_cmd = format!("head -c {n_err} /dev/zero | tr '\\0' 'e' >&2");
    let cmd = match r.gen_range(0..3) {
        0 => format!("({out_cmd}; {err_cmd}); echo"),
        1 => format!("({err_cmd}; {out_cmd}); echo"),
        _ => format!("({err_cmd} & {out_cmd}; wait); echo"),
    };
    let mut files = Files::new();
    files.insert("l.txt.txtpp".into(), format!("begin\n-TXTPP#run {cmd}\nend\n").into_bytes());
    materialize(&root, &files, &[]);
    let via_cli = r.gen_bool(0.3);
    let threads = [1usize, 2][r.gen_range(0..2)];
    let cfg = RunCfg { base: root.clone(), inputs: vec!["l.txt".into()], mode: Mode::Build, threads, recursive: false, trailing: true, shell: String::new() };
    let cj = json!({"kind": "loud-stderr", "command": cmd, "via_cli": via_cli, "threads": threads});
    let ok = if via_cli {
        let o = run_cli(&root, &cfg.cli_args(), &CliOpts { timeout: Some(std::time::Duration::from_secs(30)), ..Default::default() });
        if o.timed_out {
            ctx.violation("C17:run-failed:loud-stderr", format!("txtpp did not finish within 30 s running `{cmd}` (the command alone takes milliseconds)"), cj);
            ctx.scratch.discard(&root);
            return;
        }
        o.code == Some(0)
    } else {
        let o = run_inproc(&cfg, Spec::Natural { delay: None }, Some(&root), false);
        let _ = std::env::set_current_dir("/");
        match &o.verdict {
            Verdict::Ok | Verdict::Err(_) => {}
            Verdict::Watchdog => {
                ctx.inconclusive("watchdog (loud stderr)");
                ctx.scratch.discard(&root);
                return;
            }
            other => {
                ctx.violation("C17:abnormal-termination", format!("running `{cmd}`: {}", other.short()), cj);
                ctx.scratch.discard(&root);
                return;
            }
        }
        o.verdict.is_ok()
    };
    ctx.evals += 1;
    ctx.count("commands_with_loud_stderr", 1);
    if !ok {
        ctx.violation("C17:run-failed:loud-stderr", format!("a command exiting 0 that writes {n_err} bytes to stderr failed the build: `{cmd}`"), cj.clone());
    } else {
        let got = std::fs::read(root.join("l.txt")).unwrap_or_default();
        let want = format!("begin\n{}\nend\n", "o".repeat(n_out)).into_bytes();
        if got != want {
            ctx.violation("C17:stdout-not-the-output", format!("output has {} bytes, expected {} (begin, {n_out} x 'o', end): stderr text must not leak into it and stdout must be complete", got.len(), want.len()), cj.clone());
        }
    }
    ctx.distinct.insert(crate::util::hash_str(&cj.to_string()));
    ctx.scratch.discard(&root);
}

/// The configured shell is honoured by every CLI spelling that accepts it: `txtpp -s SH file`,
/// `txtpp -N --shell SH file`, `txtpp verify -s SH file`, `txtpp verify --shell SH file`. The shell
/// is the recorder, whose output differs from what `sh -c` would print, so a verify that falls back
/// to the default shell sees a mismatch, and a build that does shows `hi` instead of the dump.
fn shell_option_spellings(ctx: &mut Ctx, r: &mut StdRng) {
    let parent = ctx.scratch.fresh();
    let root = parent.join("proj");
    let mut files = Files::new();
    files.insert("s.txt.txtpp".into(), b"begin\n-TXTPP#run echo hi\nend\n".to_vec());
    materialize(&root, &files, &[]);
    let rec = parent.join("rec.sh");
    std::fs::write(&rec, RECORDER).unwrap();
    let _ = std::process::Command::new("chmod").arg("+x").arg(&rec).status();
    let sh = rec.display().to_string();
    let build_spellings: [Vec<&str>; 3] = [vec!["-q", "-s", &sh, "s.txt"], vec!["-q", "--shell", &sh, "-j", "1", "s.txt"], vec!["-N", "-q", "-s", &sh, "s.txt"]];
    let verify_spellings: [Vec<&str>; 3] = [vec!["verify", "-q", "-s", &sh, "s.txt"], vec!["verify", "--shell", &sh, "-q", "s.txt"], vec!["-q", "verify", "-q", "-j", "2", "-s", &sh, "s.txt"]];
    let b = &build_spellings[r.gen_range(0..3)];
    let v = &verify_spellings[r.gen_range(0..3)];
    let cj = json!({"kind": "shell-spellings", "build": b, "verify": v});
    let to_args = |a: &Vec<&str>| a.iter().map(|x| x.to_string()).collect::<Vec<String>>();
    let o = run_cli(&root, &to_args(b), &CliOpts::default());
    ctx.evals += 1;
    ctx.count("cli_shell_option_runs", 1);
    let out = String::from_utf8_lossy(&std::fs::read(root.join("s.txt")).unwrap_or_default()).to_string();
    if o.timed_out {
        ctx.inconclusive("CLI watchdog (shell spellings)");
    } else if o.code != Some(0) || !out.contains("arg=[echo hi]") {
        ctx.violation("C17:cli-shell-option:build", format!("`txtpp {}`: the configured shell did not receive the command (exit {:?}, output {out:?})", b.join(" "), o.code), cj.clone());
    } else {
        let o = run_cli(&root, &to_args(v), &CliOpts::default());
        ctx.evals += 1;
        ctx.count("cli_shell_option_runs", 1);
        if o.timed_out {
            ctx.inconclusive("CLI watchdog (shell spellings)");
        } else if o.code != Some(0) {
            ctx.violation("C17:cli-shell-option:verify", format!("`txtpp {}` right after a build with the same shell failed: the configured shell was not used for verify ({})", v.join(" "), o.short()), cj.clone());
        }
    }
    // a configured shell that cannot be resolved is an error, not a reason to fall back to `sh`
    let _ = std::fs::remove_file(root.join("s.txt"));
    let bad = [vec!["-q", "-s", "/nonexistent/mysh -c", "s.txt"], vec!["-q", "--shell", "./tools/missing-shell -c", "s.txt"], vec!["verify", "-q", "-s", "no-such-shell-anywhere -c", "s.txt"]];
    let b = &bad[r.gen_range(0..3)];
    let o = run_cli(&root, &to_args(b), &CliOpts::default());
    ctx.evals += 1;
    ctx.count("cli_shell_option_runs", 1);
    if !o.timed_out && (o.code == Some(0) || (b[0] != "verify" && root.join("s.txt").exists() && std::fs::read(root.join("s.txt")).map(|x| x.windows(2).any(|w| w == b"hi")).unwrap_or(false))) {
        ctx.violation("C17:cli-shell-option:unresolvable-shell-replaced", format!("`txtpp {}`: the configured shell does not exist, but the run succeeded / the command was executed by another shell (exit {:?})", b.join(" "), o.code), cj.clone());
    }
    // an entry of the working directory named like the shell (`sh` as a directory, or as an
    // executable stub) must not shadow the shell found through PATH
    let shadow = r.gen_range(0..2);
    if shadow == 0 {
        let _ = std::fs::create_dir_all(root.join("sh"));
    } else {
        let _ = std::fs::write(root.join("sh"), "#!/bin/sh\necho HIJACKED \"$@\"\n");
        let _ = std::process::Command::new("chmod").arg("+x").arg(root.join("sh")).status();
    }
    let _ = std::fs::remove_file(root.join("s.txt"));
    let spell: Vec<&str> = if r.gen_bool(0.5) { vec!["-q", "s.txt"] } else { vec!["-q", "-s", "sh -c", "s.txt"] };
    let o = run_cli(&root, &to_args(&spell), &CliOpts::default());
    ctx.evals += 1;
    ctx.count("cli_shell_option_runs", 1);
    let out = String::from_utf8_lossy(&std::fs::read(root.join("s.txt")).unwrap_or_default()).to_string();
    if !o.timed_out && (o.code != Some(0) || out != "begin\nhi\nend\n") {
        ctx.violation("C17:cli-shell-option:shadowed-by-cwd-entry", format!("`txtpp {}` in a directory that contains {} named `sh`: exit {:?}, output {out:?} (expected the PATH shell to run `echo hi`)", spell.join(" "), if shadow == 0 { "a directory" } else { "an executable stub" }, o.code), cj.clone());
    }
    ctx.distinct.insert(crate::util::hash_str(&cj.to_string()));
    ctx.scratch.discard(&parent);
}

/// Every run directive is executed, with its own source's TXTPP_FILE, even when several sources of
/// one directory (or one source, twice) use the very same command text; and the default shell is
/// `sh -c` whatever the environment's `SHELL` says.
fn same_command_and_environment(ctx: &mut Ctx, r: &mut StdRng) {
    let root = ctx.scratch.fresh();
    let log = ctx.scratch.root.join("logs").join("same-cmd.log");
    let _ = std::fs::create_dir_all(log.parent().unwrap());
    let _ = std::fs::remove_file(&log);
    let cmd = format!("echo \"$TXTPP_FILE\"; echo ran >> {}", log.display());
    let mut files = Files::new();
    for n in ["a", "b", "c"] {
        files.insert(format!("gen/{n}.txt.txtpp"), format!("{n} head\n-TXTPP#run {cmd}\n=\n-TXTPP#run {cmd}\n{n} tail\n").into_bytes());
    }
    // b waits for a, c for b: the executions are ordered
    files.insert("gen/b.txt.txtpp".into(), format!("-TXTPP#after a.txt\nb head\n-TXTPP#run {cmd}\n=\n-TXTPP#run {cmd}\nb tail\n").into_bytes());
    files.insert("gen/c.txt.txtpp".into(), format!("-TXTPP#after b.txt\nc head\n-TXTPP#run {cmd}\n=\n-TXTPP#run {cmd}\nc tail\n").into_bytes());
    materialize(&root, &files, &[]);
    let via_cli = r.gen_bool(0.5);
    let threads = [1usize, 2, 4][r.gen_range(0..3)];
    let shell_env = ["/bin/false", "/usr/sbin/nologin", "/nonexistent/fish", ""][r.gen_range(0..4)];
    let cfg = RunCfg { base: root.clone(), inputs: vec!["gen".into()], mode: Mode::Build, threads, recursive: false, trailing: true, shell: String::new() };
    let cj = json!({"kind": "same-command", "via_cli": via_cli, "threads": threads, "SHELL": shell_env});
    let ok = if via_cli {
        let o = run_cli(&root, &cfg.cli_args(), &CliOpts { env: vec![("SHELL".into(), shell_env.into())], ..Default::default() });
        if o.timed_out {
            ctx.inconclusive("CLI watchdog (same command)");
            ctx.scratch.discard(&root);
            return;
        }
        o.code == Some(0)
    } else {
        let o = run_inproc(&cfg, Spec::Free { delay: None }, Some(&root), false);
        let _ = std::env::set_current_dir("/");
        if matches!(o.verdict, Verdict::Watchdog) {
            ctx.inconclusive("watchdog (same command)");
            ctx.scratch.discard(&root);
            return;
        }
        o.verdict.is_ok()
    };
    ctx.evals += 1;
    ctx.count("same_command_cases", 1);
    if !ok {
        ctx.violation("C17:run-failed:same-command", format!("build with plain `echo` commands failed (via_cli {via_cli}, environment SHELL={shell_env:?}): the default shell must be `sh -c`"), cj.clone());
    } else {
        let ran = std::fs::read_to_string(&log).unwrap_or_default().lines().count();
        if ran != 6 {
            ctx.violation("C17:command-not-executed", format!("three sources x two identical run directives: the command ran {ran} time(s), expected 6"), cj.clone());
        }
        for n in ["a", "b", "c"] {
            let out = String::from_utf8_lossy(&std::fs::read(root.join(format!("gen/{n}.txt"))).unwrap_or_default()).to_string();
            let designated: Vec<&str> = out.lines().filter(|l| l.contains(".txtpp")).collect();
            let own = format!("{n}.txt.txtpp");
            if designated.len() != 2 || designated.iter().any(|l| !l.ends_with(&own)) {
                ctx.violation("C17:txtpp-file-wrong:same-command", format!("gen/{n}.txt: the two commands printed TXTPP_FILE as {designated:?}, expected two designations of gen/{own}"), cj.clone());
            }
        }
    }
    ctx.distinct.insert(crate::util::hash_str(&cj.to_string()));
    ctx.scratch.discard(&root);
}

fn guard_checks(ctx: &mut Ctx) {
    // the binary refuses to start when TXTPP_FILE is set
    let root = ctx.scratch.fresh();
    let mut files = Files::new();
    files.insert("g.txt.txtpp".into(), b"text\n".to_vec());
    materialize(&root, &files, &[]);
    let o = run_cli(&root, &["-q".into(), ".".into()], &CliOpts { env: vec![("TXTPP_FILE".into(), "something".into())], ..Default::default() });
    ctx.evals += 1;
    ctx.count("guard_runs", 1);
    if o.code == Some(0) || root.join("g.txt").exists() {
        ctx.violation("C17:guard-start", format!("txtpp started although TXTPP_FILE was set: {}", o.short()), json!({"kind": "guard"}));
    }
    let o = run_cli(&root, &["-q".into(), ".".into()], &CliOpts { env: vec![("TXTPP_FILE".into(), "".into())], ..Default::default() });
    ctx.evals += 1;
    if o.code != Some(0) {
        ctx.violation("C17:guard-empty", format!("txtpp refused to start with an empty TXTPP_FILE: {}", o.short()), json!({"kind": "guard"}));
    }
    // a command that invokes txtpp must fail the build
    let mut files = Files::new();
    files.insert("outer.txt.txtpp".into(), format!("-TXTPP#run {} -q inner\n", cli_bin().display()).into_bytes());
    files.insert("inner/i.txt.txtpp".into(), b"inner\n".to_vec());
    let root2 = ctx.scratch.fresh();
    materialize(&root2, &files, &[]);
    for via_cli in [true, false] {
        let ok = if via_cli {
            run_cli(&root2, &["-q".into(), "outer.txt".into()], &CliOpts::default()).code == Some(0)
        } else {
            let cfg = RunCfg { base: root2.clone(), inputs: vec!["outer.txt".into()], mode: Mode::Build, threads: 1, recursive: false, trailing: true, shell: String::new() };
            run_inproc(&cfg, Spec::Free { delay: None }, Some(&root2), false).verdict.is_ok()
        };
        ctx.evals += 1;
        ctx.count("guard_runs", 1);
        if ok || root2.join("inner/i.txt").exists() {
            ctx.violation("C17:guard-recursion", format!("a run command invoking txtpp succeeded (via_cli {via_cli}); inner output exists: {}", root2.join("inner/i.txt").exists()), json!({"kind": "guard"}));
        }
    }
    let _ = std::env::set_current_dir("/");
    ctx.scratch.discard(&root);
    ctx.scratch.discard(&root2);
}

fn run(ctx: &mut Ctx) {
    let mut r = StdRng::seed_from_u64(ctx.shard_seed());
    let n = ctx.tier.pick(200, 5000);
    guard_checks(ctx);
    let cmds: Vec<Vec<String>> = vec![
        vec!["printf '%s|' one".into()],
        vec!["printf '%s|' one".into(), "two".into()],
        vec!["  printf '%s|' one  ".into(), "  two   three".into(), "".into(), "four  ".into()],
        vec!["printf '%s|'".into(), "a".into(), "b".into(), "c".into()],
        vec!["printf '%s|' \"q".into(), "".into(), "r\"".into()],
    ];
    for i in 0..n {
        if !ctx.time_left() || ctx.violations.len() > 25 {
            break;
        }
        let via_cli = i % 6 == 5;
        let c = Case {
            depth: r.gen_range(0..4),
            cwd_kind: if via_cli { 0 } else { r.gen_range(0..4) },
            via_cli,
            recorder: r.gen_bool(0.3),
            extra_args: if r.gen_bool(0.5) { vec!["-x".into(), "--flag=1".into()] } else { vec![] },
            cmd_lines: cmds[r.gen_range(0..cmds.len())].clone(),
            exit: ["0", "0", "0", "0", "1", "2", "255", "signal"][r.gen_range(0..8)].to_string(),
            input_kind: r.gen_range(0..4),
            recorder_relative: r.gen_bool(0.5),
            threads: [1, 2, 4][r.gen_range(0..3)],
            with_includer: r.gen_bool(0.3),
            mode: if r.gen_bool(0.2) { Mode::InMemoryBuild } else { Mode::Build },
        };
        check(ctx, &c);
        if i % 8 == 2 {
            outside_base(ctx, &mut r);
        }
        if i % 8 == 6 {
            raw_directory(ctx, &mut r);
        }
        if i % 8 == 4 {
            loud_stderr(ctx, &mut r);
        }
        if i % 16 == 1 {
            shell_option_spellings(ctx, &mut r);
        }
        if i % 16 == 9 {
            same_command_and_environment(ctx, &mut r);
        }
        if i == 0 {
            ctx.sample(|| c.json());
        }
    }
}

fn replay(ctx: &mut Ctx, v: &Value) {
    if v["kind"].as_str() == Some("guard") {
        guard_checks(ctx);
        return;
    }
    if v["kind"].as_str() == Some("same-command") {
        let mut r = StdRng::seed_from_u64(17);
        for _ in 0..16 {
            same_command_and_environment(ctx, &mut r);
        }
        return;
    }
    if v["kind"].as_str() == Some("shell-spellings") {
        let mut r = StdRng::seed_from_u64(17);
        for _ in 0..12 {
            shell_option_spellings(ctx, &mut r);
        }
        return;
    }
    if v["kind"].as_str() == Some("loud-stderr") {
        let mut r = StdRng::seed_from_u64(17);
        for _ in 0..20 {
            loud_stderr(ctx, &mut r);
        }
        return;
    }
    if v["kind"].as_str() == Some("outside-base") || v["kind"].as_str() == Some("raw-directory") {
        let mut r = StdRng::seed_from_u64(17);
        for _ in 0..40 {
            if v["kind"].as_str() == Some("outside-base") {
                outside_base(ctx, &mut r);
            } else {
                raw_directory(ctx, &mut r);
            }
        }
        return;
    }
    check(ctx, &Case::from(v));
}
