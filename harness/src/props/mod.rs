//! One driver per property.
use crate::fw::PropInfo;

pub mod c01;
pub mod c04;
pub mod c11;
pub mod c17;
pub mod c18;
pub mod c14;
pub mod common;
pub mod graph;
pub mod rawnames;
pub mod sched_props;
pub mod text_props;
pub mod tree_props;
pub mod c15;

pub fn registry() -> Vec<PropInfo> {
    vec![c01::info(), sched_props::info_c02(), sched_props::info_c03(), c04::info(), sched_props::info_c05(), tree_props::info_c06(), tree_props::info_c07(), tree_props::info_c08(), tree_props::info_c09(), tree_props::info_c10(), c11::info(), text_props::info_c12(), text_props::info_c13(), c14::info(), c15::info(), text_props::info_c16(), c17::info(), c18::info()]
}
