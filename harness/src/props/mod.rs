//! One driver per property.
use crate::fw::PropInfo;

pub mod c14;
pub mod common;
pub mod c15;

pub fn registry() -> Vec<PropInfo> {
    vec![c14::info(), c15::info()]
}
