//! One driver per property.
use crate::fw::PropInfo;

pub mod c01;
pub mod c14;
pub mod common;
pub mod graph;
pub mod sched_props;
pub mod c15;

pub fn registry() -> Vec<PropInfo> {
    vec![c01::info(), sched_props::info_c02(), sched_props::info_c03(), sched_props::info_c05(), c14::info(), c15::info()]
}
