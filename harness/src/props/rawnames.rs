//! File names that are not valid UTF-8 (Latin-1 `caf\xe9.txtpp.md`, ...): shared scenario of C10 and C11.
//! The generators of the harness spell paths as `String`; this module works on raw bytes instead:
//! its own snapshot (path bytes -> content), sources of all three name shapes reached by a
//! directory scan, and decoy files at the names a lossy conversion (U+FFFD) of each output name
//! would give. Every mode is run in turn on one tree.

use crate::fw::Ctx;
use crate::run::{run_inproc, RunCfg, Verdict};
use crate::sched::Spec;
use rand::rngs::StdRng;
use rand::Rng;
use serde_json::{json, Value};
use std::collections::BTreeMap;
use std::ffi::OsString;
use std::os::unix::ffi::{OsStrExt, OsStringExt};
use std::path::{Path, PathBuf};
use txtpp::Mode;

pub struct RawFinding {
    /// "naming" (an output is missing / appears under another name / has wrong bytes, a run fails)
    /// or "touched" (a path that is neither an output nor a temp target was created, changed or deleted)
    pub class: &'static str,
    pub mode: &'static str,
    pub msg: String,
}

type RawSnap = BTreeMap<Vec<u8>, Vec<u8>>;

fn raw_snap(root: &Path) -> RawSnap {
    fn walk(d: &Path, root: &Path, out: &mut RawSnap) {
        if let Ok(rd) = std::fs::read_dir(d) {
            for e in rd.flatten() {
                let p = e.path();
                let rel = p.strip_prefix(root).unwrap().as_os_str().as_bytes().to_vec();
                match std::fs::symlink_metadata(&p) {
                    Ok(m) if m.is_dir() => walk(&p, root, out),
                    Ok(_) => {
                        out.insert(rel, std::fs::read(&p).unwrap_or_default());
                    }
                    Err(_) => {}
                }
            }
        }
    }
    let mut s = RawSnap::new();
    walk(root, root, &mut s);
    s
}

fn show_name(b: &[u8]) -> String {
    b.iter().map(|c| if c.is_ascii_graphic() || *c == b' ' { (*c as char).to_string() } else { format!("\\x{c:02x}") }).collect()
}

fn pb(root: &Path, rel: &[u8]) -> PathBuf {
    root.join(OsString::from_vec(rel.to_vec()))
}

/// (source name, output name, directory) as raw bytes
fn sources() -> Vec<(Vec<u8>, Vec<u8>, &'static [u8])> {
    vec![
        (b"caf\xe9.txtpp.md".to_vec(), b"caf\xe9.md".to_vec(), b""),
        (b"na\xefve.txt.txtpp".to_vec(), b"na\xefve.txt".to_vec(), b""),
        (b"r\xe9sum\xe9.txtpp".to_vec(), b"r\xe9sum\xe9".to_vec(), b""),
        (b"x\xff.v1.txtpp.txt".to_vec(), b"x\xff.v1.txt".to_vec(), b"sub"),
        (b"plain.txtpp.md".to_vec(), b"plain.md".to_vec(), b"d\xe9p"), // ASCII name below a non-UTF-8 directory
        (b"\xe9.txtpp.\xe8".to_vec(), b"\xe9.\xe8".to_vec(), b"sub"),
    ]
}

/// Runs the scenario once; returns the findings and a description of the case.
pub fn scenario(ctx: &mut Ctx, r: &mut StdRng) -> (Vec<RawFinding>, Value) {
    let root = ctx.scratch.fresh();
    let threads = [1usize, 2, 4][r.gen_range(0..3)];
    let by_dirs = r.gen_bool(0.5); // inputs: "." recursively, or each directory by name
    let mut findings: Vec<RawFinding> = vec![];
    let mut expected: Vec<(Vec<u8>, Vec<u8>)> = vec![]; // (relative output path, bytes)
    let mut srcs_rel: Vec<Vec<u8>> = vec![];
    let mut decoys: Vec<Vec<u8>> = vec![];
    for (k, (s, o, d)) in sources().into_iter().enumerate() {
        let d = d.to_vec();
        let join = |n: &[u8]| -> Vec<u8> {
            if d.is_empty() {
                n.to_vec()
            } else {
                let mut v = d.clone();
                v.push(b'/');
                v.extend_from_slice(n);
                v
            }
        };
        let sp = join(&s);
        let op = join(&o);
        let fp = pb(&root, &sp);
        let _ = std::fs::create_dir_all(fp.parent().unwrap());
        // (every other source uses CRLF: the line ending has to be sniffed through the raw path too)
        let le = if k % 2 == 1 { "\r\n" } else { "\n" };
        let body = format!("source {k} head{le}-TXTPP#run echo ran {k}{le}source {k} tail{le}");
        let want = format!("source {k} head{le}ran {k}{le}source {k} tail{le}");
        std::fs::write(&fp, body).expect("write raw-named source");
        expected.push((op.clone(), want.into_bytes()));
        srcs_rel.push(sp);
        // what a lossy conversion of the output path would name
        let lossy = String::from_utf8_lossy(&op).to_string().into_bytes();
        if lossy != op {
            // the decoy's directory may itself be a lossy spelling: create it
            let dp = pb(&root, &lossy);
            let _ = std::fs::create_dir_all(dp.parent().unwrap());
            let _ = std::fs::write(&dp, b"decoy: must stay untouched\n");
            decoys.push(lossy);
        }
    }
    let inputs: Vec<String> = if by_dirs { vec![".".into(), "sub".into(), "./sub/..".into()] } else { vec![".".into()] };
    let recursive = true;
    let cj = json!({"kind": "raw-names", "threads": threads, "inputs": inputs, "sources": srcs_rel.iter().map(|s| show_name(s)).collect::<Vec<_>>()});
    let s0 = raw_snap(&root);
    let run = |mode: Mode| {
        let cfg = RunCfg { base: root.clone(), inputs: inputs.clone(), mode, threads, recursive, trailing: true, shell: String::new() };
        run_inproc(&cfg, Spec::Free { delay: None }, Some(&root), false)
    };
    let is_allowed = |p: &Vec<u8>| expected.iter().any(|(o, _)| o == p);
    let check_untouched = |before: &RawSnap, after: &RawSnap, mode: &'static str, findings: &mut Vec<RawFinding>, outputs_too: bool| {
        for (p, b) in before {
            if is_allowed(p) && !outputs_too {
                continue;
            }
            match after.get(p) {
                None => findings.push(RawFinding { class: "touched", mode, msg: format!("{} was deleted ({})", show_name(p), if decoys.contains(p) { "a decoy at the lossy spelling of an output name" } else { "not an output" }) }),
                Some(a) if a != b => findings.push(RawFinding { class: "touched", mode, msg: format!("{} was modified ({})", show_name(p), if decoys.contains(p) { "a decoy at the lossy spelling of an output name" } else { "not an output" }) }),
                _ => {}
            }
        }
        for p in after.keys() {
            if !before.contains_key(p) && !is_allowed(p) {
                findings.push(RawFinding { class: "touched", mode, msg: format!("{} was created: it is not the output path of any source", show_name(p)) });
            }
        }
    };
    // build
    let o = run(Mode::Build);
    ctx.evals += 1;
    if matches!(o.verdict, Verdict::Watchdog) {
        ctx.inconclusive("watchdog (raw names)");
        ctx.scratch.discard(&root);
        return (findings, cj);
    }
    let s1 = raw_snap(&root);
    if !o.verdict.is_ok() {
        findings.push(RawFinding { class: "naming", mode: "build", msg: format!("build of sources with non-UTF-8 names failed: {}", o.verdict.short()) });
    } else {
        for (op, want) in &expected {
            match s1.get(op) {
                None => findings.push(RawFinding { class: "naming", mode: "build", msg: format!("output {} does not exist after a successful build", show_name(op)) }),
                Some(b) if b != want => findings.push(RawFinding { class: "naming", mode: "build", msg: format!("output {} has wrong bytes: {:?}", show_name(op), String::from_utf8_lossy(b)) }),
                _ => {}
            }
        }
    }
    check_untouched(&s0, &s1, "build", &mut findings, false);
    if findings.is_empty() {
        // needed: nothing to do; verify: up to date
        for (mode, name) in [(Mode::InMemoryBuild, "needed"), (Mode::Verify, "verify")] {
            let o = run(mode);
            ctx.evals += 1;
            let s2 = raw_snap(&root);
            if !o.verdict.is_ok() && !matches!(o.verdict, Verdict::Watchdog) {
                findings.push(RawFinding { class: "naming", mode: name, msg: format!("{name} on the freshly built tree failed: {}", o.verdict.short()) });
            }
            check_untouched(&s1, &s2, name, &mut findings, true);
        }
        // verify must look at the real output
        let (vp, _) = &expected[r.gen_range(0..expected.len())];
        let good = std::fs::read(pb(&root, vp)).unwrap_or_default();
        let mut bad = good.clone();
        bad.push(b'!');
        let _ = std::fs::write(pb(&root, vp), &bad);
        let o = run(Mode::Verify);
        ctx.evals += 1;
        if o.verdict.is_ok() {
            findings.push(RawFinding { class: "naming", mode: "verify", msg: format!("verify passed although output {} was tampered with", show_name(vp)) });
        }
        let _ = std::fs::write(pb(&root, vp), &good);
        // clean removes exactly the outputs
        let s3 = raw_snap(&root);
        let o = run(Mode::Clean);
        ctx.evals += 1;
        let s4 = raw_snap(&root);
        if !o.verdict.is_ok() && !matches!(o.verdict, Verdict::Watchdog) {
            findings.push(RawFinding { class: "naming", mode: "clean", msg: format!("clean failed: {}", o.verdict.short()) });
        }
        for (op, _) in &expected {
            if s4.contains_key(op) {
                findings.push(RawFinding { class: "naming", mode: "clean", msg: format!("clean left output {} in place", show_name(op)) });
            }
        }
        check_untouched(&s3, &s4, "clean", &mut findings, false);
    }
    ctx.count("raw_name_scenarios", 1);
    ctx.count("raw_named_sources_processed", expected.len() as u64);
    ctx.scratch.discard(&root);
    (findings, cj)
}
