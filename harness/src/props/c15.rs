//! C15 — directive recognition and continuation follow the documented grammar.
//! Bounded-exhaustive in-process differential of `Directive::detect_from` / `add_line` against
//! the reference recogniser of model.rs, plus an end-to-end sample through whole-file runs.

use crate::fw::{Ctx, PropInfo};
use crate::model;
use crate::props::common::{judge_project, run_project, ProjectCase};
use crate::util::{hash_str, Files};
use serde_json::{json, Value};
use std::collections::BTreeSet;
use txtpp::verif::{Directive, DirectiveType};

pub fn info() -> PropInfo {
    PropInfo {
        id: "C15",
        level: "exploration",
        rule: "bounded-exhaustive: every line of <=5 tokens over {space,tab,-,//,TXTPP#,TXTPP,#,include,after,run,temp,tag,write,inclde,x,é} through detect_from, and every (directive of <=4 tokens, distinct by (ws,prefix,type)) x (next line of <=5 tokens (quick: 4) over {space,tab,-,//,TXTPP#,run,x,é,'# '}) through add_line, each compared with an independent recogniser written from the statement; plus sampled pairs pushed through whole-file builds and compared with the reference model, including two-pass files (a generated dependency is included first) whose continuation text looks like an include/after of the file itself or of an unrequested source. A case is non-trivial when the line contains TXTPP# (detection), or the pair is accepted by either side, or the directive is multi-line capable and the next line starts with its leading whitespace (a near miss); distinct = distinct line / (ws,prefix,type,next) strings. Later additions: every capitalisation class of every directive name in five line shapes; end-to-end variants with mixed line terminators and a byte order mark; two-pass files; clean-mode grammar (two temp blocks with the same prefix separated by text / back to back with different prefixes, built and cleaned for every directive shape).",
        assumptions: &[
            "reference recogniser (harness/src/model.rs detect/continues) is a faithful reading of the statement",
            "blanks are space and tab only (DESIGN §4.3 D2)",
            "non-ASCII prefix with spaces-only continuation is accepted under both the byte and the character reading (D5)",
        ],
        floor: (50_000, 50_000),
        shards: (16, 16),
        run,
        replay,
    }
}

const TOK: [&str; 16] = [" ", "\t", "-", "//", "TXTPP#", "TXTPP", "#", "include", "after", "run", "temp", "tag", "write", "inclde", "x", "\u{e9}"];
const NEXT_TOK: [&str; 9] = [" ", "\t", "-", "//", "TXTPP#", "run", "x", "\u{e9}", "# "];

fn type_name(t: &DirectiveType) -> &'static str {
    match t {
        DirectiveType::Empty => "",
        DirectiveType::Include => "include",
        DirectiveType::After => "after",
        DirectiveType::Run => "run",
        DirectiveType::Tag => "tag",
        DirectiveType::Temp => "temp",
        DirectiveType::Write => "write",
    }
}

fn type_from(n: &str) -> DirectiveType {
    match n {
        "" => DirectiveType::Empty,
        "include" => DirectiveType::Include,
        "after" => DirectiveType::After,
        "run" => DirectiveType::Run,
        "tag" => DirectiveType::Tag,
        "temp" => DirectiveType::Temp,
        _ => DirectiveType::Write,
    }
}

fn line_of(mut idx: u64, len: usize, toks: &[&str]) -> String {
    let mut parts = Vec::with_capacity(len);
    for _ in 0..len {
        parts.push(toks[(idx % toks.len() as u64) as usize]);
        idx /= toks.len() as u64;
    }
    parts.concat()
}

/// `detect_from` guarded against panics
fn real_detect(line: &str) -> Result<Option<Directive>, String> {
    std::panic::catch_unwind(|| Directive::detect_from(line)).map_err(|_| "panic in detect_from".to_string())
}

fn real_add(ws: &str, pre: &str, ty: &str, next: &str) -> Result<Option<String>, String> {
    let ws = ws.to_string();
    let pre = pre.to_string();
    let ty = ty.to_string();
    let next = next.to_string();
    std::panic::catch_unwind(move || {
        let mut d = Directive::new(&ws, &pre, type_from(&ty), vec!["first".to_string()]);
        match d.add_line(&next) {
            Ok(()) => {
                if d.args.len() == 2 {
                    Some(d.args[1].clone())
                } else {
                    Some(format!("<<{} args>>", d.args.len()))
                }
            }
            Err(()) => {
                if d.args.len() == 1 {
                    None
                } else {
                    Some(format!("<<rejected but {} args>>", d.args.len()))
                }
            }
        }
    })
    .map_err(|_| "panic in add_line".to_string())
}

/// character-count reading of "as many spaces as the prefix is long"
fn continues_chars(d: &model::Dir, line: &str) -> Option<String> {
    if !model::multi(&d.name) {
        return None;
    }
    let r = line.strip_prefix(d.ws.as_str())?;
    let blank = |c: char| c == ' ' || c == '\t';
    if r == d.pre.trim_end_matches(blank) {
        return Some(String::new());
    }
    if r.starts_with(d.pre.as_str()) {
        return Some(r[d.pre.len()..].trim_end_matches(blank).to_string());
    }
    let n = d.pre.chars().count();
    let spaces = " ".repeat(n);
    if r.starts_with(spaces.as_str()) {
        return Some(r[n..].trim_end_matches(blank).to_string());
    }
    None
}

fn check_detect(ctx: &mut Ctx, line: &str) {
    let reference = model::detect(line);
    ctx.evals += 1;
    if line.contains("TXTPP#") {
        ctx.distinct.insert(hash_str(line));
    }
    let real = match real_detect(line) {
        Ok(r) => r,
        Err(_) => {
            ctx.violation("C15:detect:panic", format!("detect_from panicked on line {line:?}"), json!({"kind": "detect", "line": line}));
            return;
        }
    };
    let same = match (&real, &reference) {
        (None, None) => true,
        (Some(r), Some(m)) => r.whitespaces == m.ws && r.prefix == m.pre && type_name(&r.directive_type) == m.name && r.args == m.args,
        _ => false,
    };
    if let Some(m) = &reference {
        ctx.cover("directive_types", &m.name);
        ctx.count("lines_that_are_directives", 1);
    }
    if !same {
        let kind = match (&real, &reference) {
            (Some(_), None) => "false-positive",
            (None, Some(_)) => "false-negative",
            _ => "fields",
        };
        ctx.violation(
            format!("C15:detect:{kind}"),
            format!("line {line:?}: txtpp detect_from = {:?}, reference = {:?}", real.as_ref().map(|r| (&r.whitespaces, &r.prefix, type_name(&r.directive_type), &r.args)), reference),
            json!({"kind": "detect", "line": line}),
        );
    }
}

fn check_add(ctx: &mut Ctx, ws: &str, pre: &str, ty: &str, next: &str) {
    let d = model::Dir { ws: ws.into(), pre: pre.into(), name: ty.into(), args: vec!["first".into()] };
    let ref_bytes = model::continues(&d, next);
    let ref_chars = continues_chars(&d, next);
    ctx.evals += 1;
    let real = match real_add(ws, pre, ty, next) {
        Ok(r) => r,
        Err(_) => {
            ctx.violation("C15:add_line:panic", format!("add_line panicked: directive ws={ws:?} prefix={pre:?} type={ty:?}, next line {next:?}"), json!({"kind": "add", "ws": ws, "pre": pre, "ty": ty, "next": next}));
            return;
        }
    };
    if ref_bytes.is_some() || ref_chars.is_some() || real.is_some() || (model::multi(ty) && next.starts_with(ws) && next.len() > ws.len()) {
        ctx.distinct.insert(hash_str(&format!("{ws}\u{1}{pre}\u{1}{ty}\u{1}{next}")));
    }
    if ref_bytes.is_some() {
        ctx.count("pairs_accepted", 1);
    }
    let ok = real == ref_bytes || (!pre.is_ascii() && real == ref_chars);
    if !ok {
        let kind = match (&real, &ref_bytes) {
            (Some(_), None) => "accepts-non-continuation",
            (None, Some(_)) => "rejects-continuation",
            _ => "argument",
        };
        ctx.violation(
            format!("C15:add_line:{kind}"),
            format!("directive ws={ws:?} prefix={pre:?} type={ty:?}, next line {next:?}: txtpp add_line = {real:?}, reference = {ref_bytes:?}"),
            json!({"kind": "add", "ws": ws, "pre": pre, "ty": ty, "next": next}),
        );
    }
}

/// whole-file run of `line` + `next` + a sentinel text line, compared with the reference model
fn check_e2e(ctx: &mut Ctx, line: &str, next: &str) {
    check_e2e_variant(ctx, line, next, 0);
    // the same two lines with mixed line terminators (recognition must not depend on which
    // terminator a line carries) and behind a byte order mark (it is part of the first line's text)
    let v = (hash_str(&format!("{line}|{next}")) % 6) as u8;
    if v >= 1 && v <= 4 {
        check_e2e_variant(ctx, line, next, v);
    }
}

fn check_e2e_variant(ctx: &mut Ctx, line: &str, next: &str, variant: u8) {
    let mut files = Files::new();
    let src = match variant {
        1 => format!("{line}\n{next}\r\nlast line\r\n"),
        2 => format!("{line}\r\n{next}\nlast line\n"),
        3 => format!("first\n{line}\r\n{next}\r\nlast line\n"),
        4 => format!("\u{feff}{line}\n{next}\nlast line\n"),
        _ => format!("{line}\n{next}\nlast line\n"),
    };
    if variant == 4 && !safe_for_e2e(&format!("\u{feff}{line}")) {
        return;
    }
    if variant != 0 {
        ctx.count("e2e_runs_with_mixed_terminators_or_bom", 1);
    }
    files.insert("a.txt.txtpp".into(), src.into_bytes());
    let case = ProjectCase::simple(files);
    let res = run_project(ctx, &case);
    ctx.count("e2e_runs", 1);
    for (sig, msg) in judge_project(&case, &res) {
        ctx.violation(format!("C15:e2e:{sig}"), msg, json!({"kind": "e2e", "line": line, "next": next, "variant": variant}));
    }
}

/// whole-file run where the file first includes a generated dependency (so that it is processed in
/// two passes) and then carries a multi-line directive whose continuation text looks like an
/// include / after of the file itself or of a source that nothing requires
fn check_e2e_two_pass(ctx: &mut Ctx, head: &str, cont_arg: &str) {
    let d = match model::detect(head) {
        Some(d) if model::multi(&d.name) && !d.pre.is_empty() && matches!(d.name.as_str(), "" | "write") => d,
        _ => return,
    };
    let mut files = Files::new();
    let src = format!("-TXTPP#include dep.txt\n{head}\n{}{}{cont_arg}\nlast line\n", d.ws, d.pre);
    files.insert("a.txt.txtpp".into(), src.into_bytes());
    files.insert("dep.txt.txtpp".into(), b"dep\n".to_vec());
    files.insert("other.txt.txtpp".into(), b"other\n".to_vec());
    let mut case = ProjectCase::simple(files);
    case.inputs = vec!["a.txt".into()];
    case.requested = Some(vec!["a.txt.txtpp".into()]);
    let res = run_project(ctx, &case);
    ctx.count("e2e_two_pass_runs", 1);
    ctx.distinct.insert(hash_str(&format!("2pass|{head}|{cont_arg}")));
    for (sig, msg) in judge_project(&case, &res) {
        ctx.violation(format!("C15:e2e-two-pass:{sig}"), format!("{msg}\nsource a.txt.txtpp: include dep.txt / {head:?} / continuation {cont_arg:?}"), json!({"kind": "e2e2", "head": head, "cont": cont_arg}));
    }
}

/// The grammar is the same in every mode: two multi-line `temp` blocks (same prefix, separated by a
/// text line that ends the first block; or back to back with different prefixes, so that the line
/// ending the first block *is* the second directive) are built, then cleaned. Build must give the
/// model's temp files; clean must recognise both directives again and remove both files.
fn check_e2e_clean(ctx: &mut Ctx, ws: &str, pre: &str, shape: u8) {
    let other = if pre.starts_with('#') { "// " } else { "# " };
    let src = match shape {
        0 => format!("{ws}{pre}TXTPP#temp c15a.tmp\n{ws}{pre}body a\nplain text between\n{ws}{pre}TXTPP#temp c15b.tmp\n{ws}{pre}body b\nlast line\n"),
        1 => format!("{ws}{pre}TXTPP#temp c15a.tmp\n{ws}{pre}body a\n{ws}{other}TXTPP#temp c15b.tmp\n{ws}{other}body b\nlast line\n"),
        _ => format!("first line\n{ws}{pre}TXTPP#write w\n{ws}{pre}TXTPP#temp c15a.tmp\nmiddle\n{ws}{other}TXTPP#temp c15b.tmp\n{ws}{other}body b\n{ws}{other}"),
    };
    let mut files = Files::new();
    files.insert("a.txt.txtpp".into(), src.clone().into_bytes());
    let case = ProjectCase::simple(files);
    let root = ctx.scratch.fresh();
    let res = crate::props::common::run_project_at(ctx, &case, &root, false);
    ctx.count("e2e_clean_runs", 1);
    ctx.distinct.insert(hash_str(&format!("clean|{ws}|{pre}|{shape}")));
    let cj = json!({"kind": "e2e-clean", "ws": ws, "pre": pre, "shape": shape});
    let problems = judge_project(&case, &res);
    for (sig, msg) in &problems {
        ctx.violation(format!("C15:e2e:{sig}"), format!("{msg}\nsource {src:?}"), cj.clone());
    }
    if problems.is_empty() && res.outcome.verdict.is_ok() && res.expect.out_of_domain.is_none() {
        let mut c2 = case.clone();
        c2.mode = txtpp::Mode::Clean;
        let o = crate::run::run_inproc(&c2.cfg(&root), c2.spec.clone(), Some(&root), false);
        ctx.evals += 1;
        let left: Vec<String> = res.expect.built.temps.keys().chain(res.expect.built.outputs.keys()).filter(|p| root.join(p).exists()).cloned().collect();
        if o.verdict.is_ok() && !left.is_empty() {
            ctx.violation("C15:e2e:clean-did-not-recognise-directive", format!("clean after a build left {left:?} in place: the directive lines were not recognised as in build mode\nsource {src:?}"), cj);
        }
    }
    ctx.scratch.discard(&root);
}

fn safe_for_e2e(line: &str) -> bool {
    // only lines whose directives (if any) run nothing and read nothing
    match model::detect(line) {
        None => true,
        Some(d) => matches!(d.name.as_str(), "" | "write"),
    }
}

fn run(ctx: &mut Ctx) {
    let shard = ctx.shard as u64;
    let shards = ctx.shards as u64;
    // ---- detection: every line of <= 5 tokens
    let mut total = 0u64;
    for len in 0..=5usize {
        let n = (TOK.len() as u64).pow(len as u32);
        for idx in 0..n {
            if (total + idx) % shards != shard {
                continue;
            }
            let line = line_of(idx, len, &TOK);
            check_detect(ctx, &line);
        }
        total += n;
    }
    // ---- names are case-sensitive: every capitalisation of a directive name is a near miss
    if shard == 0 {
        for name in ["include", "after", "run", "temp", "tag", "write"] {
            let mut variants = vec![name.to_uppercase(), format!("{}{}", name[..1].to_uppercase(), &name[1..])];
            let mut mid: Vec<char> = name.chars().collect();
            let k = mid.len() / 2;
            mid[k] = mid[k].to_ascii_uppercase();
            variants.push(mid.into_iter().collect());
            for v in variants {
                for shape in [format!("TXTPP#{v}"), format!("TXTPP#{v} x"), format!("-TXTPP#{v} a.txt"), format!("  // TXTPP#{v}"), format!("see TXTPP#{v} other.txt for the syntax")] {
                    check_detect(ctx, &shape);
                    ctx.count("case_variant_lines", 1);
                }
            }
        }
    }
    // ---- continuation: distinct (ws, prefix, type) of directive lines of <= 4 tokens
    let mut dirs: BTreeSet<(String, String, String)> = BTreeSet::new();
    for len in 0..=4usize {
        let n = (TOK.len() as u64).pow(len as u32);
        for idx in 0..n {
            let line = line_of(idx, len, &TOK);
            if let Some(d) = model::detect(&line) {
                dirs.insert((d.ws, d.pre, d.name));
            }
        }
    }
    ctx.count("directive_shapes", if shard == 0 { dirs.len() as u64 } else { 0 });
    let max_next = ctx.tier.pick(4, 5);
    let mut k = 0u64;
    for (ws, pre, ty) in &dirs {
        k += 1;
        if k % shards != shard {
            continue;
        }
        for len in 0..=max_next {
            let n = (NEXT_TOK.len() as u64).pow(len as u32);
            for idx in 0..n {
                let next = line_of(idx, len, &NEXT_TOK);
                check_add(ctx, ws, pre, ty, &next);
                // candidate lines that really start with this directive's ws + prefix forms
                if len <= 2 {
                    for form in [format!("{ws}{pre}{next}"), format!("{ws}{}{next}", " ".repeat(pre.len())), format!("{ws}{}{next}", " ".repeat(pre.chars().count())), format!("{ws}{}", pre.trim_end())] {
                        check_add(ctx, ws, pre, ty, &form);
                    }
                }
            }
        }
        if ctx.violations.len() >= 30 {
            break;
        }
    }
    // ---- end-to-end sample
    let mut rng = ctx.shard_seed().wrapping_mul(0x9E37_79B9_7F4A_7C15) | 1;
    let mut next_rand = move || {
        rng ^= rng << 13;
        rng ^= rng >> 7;
        rng ^= rng << 17;
        rng
    };
    let e2e = ctx.tier.pick(320, 2000);
    let mut done = 0;
    let mut tries = 0;
    while done < e2e && tries < e2e * 50 && ctx.time_left() {
        tries += 1;
        let len = 1 + (next_rand() % 5) as usize;
        let line = line_of(next_rand(), len, &TOK);
        let nlen = (next_rand() % 5) as usize;
        let next = if next_rand() % 3 == 0 {
            // derive the continuation from the directive itself
            match model::detect(&line) {
                Some(d) => format!("{}{}{}", d.ws, if next_rand() % 2 == 0 { d.pre.clone() } else { " ".repeat(d.pre.len()) }, line_of(next_rand(), nlen.min(2), &NEXT_TOK)),
                None => line_of(next_rand(), nlen, &NEXT_TOK),
            }
        } else {
            line_of(next_rand(), nlen, &NEXT_TOK)
        };
        if !safe_for_e2e(&line) || !safe_for_e2e(&next) {
            continue;
        }
        // the harness' own sentinel line must not be swallowed by an unterminated prefix-less directive: fine, the model handles it
        check_e2e(ctx, &line, &next);
        done += 1;
    }
    for head in ["// TXTPP#write w1", "  -TXTPP# note", "<!-- TXTPP#write", "-TXTPP#write TXTPP#include a.txt"] {
        for cont in ["TXTPP#include a.txt", "TXTPP#after a.txt", "-TXTPP#include other.txt", "TXTPP#after other.txt", "TXTPP#run echo inert", "plain"] {
            if ctx.claim(5_000_000 + hash_str(&format!("{head}{cont}")) % 1_000_000) {
                check_e2e_two_pass(ctx, head, cont);
            }
        }
    }
    let mut kk = 0u64;
    for (ws, pre, ty) in &dirs {
        if ty != "temp" || pre.is_empty() || pre.contains("TXTPP") {
            continue;
        }
        for shape in 0..3u8 {
            kk += 1;
            if kk <= 240 && ctx.claim(6_000_000 + kk) {
                check_e2e_clean(ctx, ws, pre, shape);
            }
        }
    }
    ctx.sample(|| json!({"detect_line": line_of(77_777, 4, &TOK), "reference": format!("{:?}", model::detect(&line_of(77_777, 4, &TOK)))}));
    ctx.sample(|| json!({"continuation": {"ws": " ", "prefix": "// ", "type": "run", "next": " //  x \t"}, "reference": format!("{:?}", model::continues(&model::Dir{ws:" ".into(), pre:"// ".into(), name:"run".into(), args: vec![]}, " //  x \t"))}));
    ctx.exhaustive = Some(true);
}

fn replay(ctx: &mut Ctx, case: &Value) {
    match case["kind"].as_str() {
        Some("detect") => check_detect(ctx, case["line"].as_str().unwrap_or("")),
        Some("add") => check_add(ctx, case["ws"].as_str().unwrap_or(""), case["pre"].as_str().unwrap_or(""), case["ty"].as_str().unwrap_or(""), case["next"].as_str().unwrap_or("")),
        Some("e2e") => check_e2e_variant(ctx, case["line"].as_str().unwrap_or(""), case["next"].as_str().unwrap_or(""), case["variant"].as_u64().unwrap_or(0) as u8),
        Some("e2e-clean") => check_e2e_clean(ctx, case["ws"].as_str().unwrap_or(""), case["pre"].as_str().unwrap_or(""), case["shape"].as_u64().unwrap_or(0) as u8),
        Some("e2e2") => check_e2e_two_pass(ctx, case["head"].as_str().unwrap_or(""), case["cont"].as_str().unwrap_or("")),
        _ => eprintln!("unknown case kind"),
    }
}
