//! C14 — tags: stored once, substituted once, leftmost-first, never re-expanded.
//! In-process differential of the re-exported `TagState` against the reference store of
//! model.rs (ordered Vec, written from the statement), bounded-exhaustive; random operation
//! sequences; whole-file tag scenarios judged by the reference model; every case repeated on
//! fresh `TagState`s to expose hash-order dependence.

use crate::fw::Ctx;
use crate::fw::PropInfo;
use crate::model::TagStore;
use crate::props::common::{judge_project, run_project, ProjectCase};
use crate::util::{hash_str, Files};
use rand::rngs::StdRng;
use rand::{Rng, SeedableRng};
use serde_json::{json, Value};
use txtpp::verif::TagState;

pub fn info() -> PropInfo {
    PropInfo {
        id: "C14",
        level: "exploration",
        rule: "bounded-exhaustive: every ordered sequence of <=3 (quick: 2) distinct tag names from {all strings over {A,B} of length 1..3, the empty name, and the multi-byte names é, éA, Aé, éé} created and stored with contents from {'', 'v', another tag's name, 'l1\\nl2', 'l1\\r\\nl2\\n'}, then injected into every target line over {A,B,x,é} up to length 5 (quick 4; thorough: 6 for one name, 5 for two, 4 for three) and into a fixed line containing every name; plus seeded random create/store/inject sequences; plus generated whole files (create/store/use/error orders, tail lines, no-output directives) judged by the reference model. Each case runs on several fresh TagStates (fresh hash seeds). Non-trivial = at least one tag stored and the target line contains a tag name, or a create is rejected; distinct = distinct (names, contents, line) / op sequence / file. Later additions to the whole-file generator: tag names with an inner blank, stored contents with a carriage return that is content (one\\r\\r\\ntwo), first lines of 8189-20000 bytes, a generated dependency reached while a tag is pending.",
        assumptions: &["reference tag store (harness/src/model.rs TagStore) is a faithful reading of the statement", "line endings LF and CRLF only"],
        floor: (20_000, 200_000),
        shards: (16, 16),
        run,
        replay,
    }
}

fn names() -> Vec<String> {
    let mut v = vec![String::new()];
    for len in 1..=3 {
        for k in 0..(1 << len) {
            v.push((0..len).map(|i| if (k >> i) & 1 == 0 { 'A' } else { 'B' }).collect());
        }
    }
    // multi-byte names: prefix relations and overlaps must be decided on characters, not bytes
    for n in ["\u{e9}", "\u{e9}A", "A\u{e9}", "\u{e9}\u{e9}"] {
        v.push(n.to_string());
    }
    v
}

fn lines(max: usize) -> Vec<String> {
    let alpha = ['A', 'B', 'x', '\u{e9}'];
    let mut v = vec![String::new()];
    let mut cur = vec![String::new()];
    for _ in 0..max {
        let mut next = vec![];
        for s in &cur {
            for c in alpha {
                next.push(format!("{s}{c}"));
            }
        }
        v.extend(next.iter().cloned());
        cur = next;
    }
    v
}

#[derive(Debug, Clone)]
enum Op {
    Create(String),
    Store(String),
    Inject(String),
}

fn op_json(o: &Op) -> Value {
    match o {
        Op::Create(n) => json!({ "create": n }),
        Op::Store(c) => json!({ "store": c }),
        Op::Inject(l) => json!({ "inject": l }),
    }
}

fn op_from(v: &Value) -> Option<Op> {
    if let Some(s) = v["create"].as_str() {
        return Some(Op::Create(s.into()));
    }
    if let Some(s) = v["store"].as_str() {
        return Some(Op::Store(s.into()));
    }
    v["inject"].as_str().map(|s| Op::Inject(s.into()))
}

/// Run the op sequence on a fresh real TagState and on the reference; Some(message) on disagreement
fn differential(ops: &[Op], le: &str) -> Result<(bool, Vec<String>), String> {
    let ops2 = ops.to_vec();
    let le2 = le.to_string();
    let real: Result<Vec<String>, String> = std::panic::catch_unwind(move || {
        let mut t = TagState::new();
        let mut out = vec![];
        for o in &ops2 {
            match o {
                Op::Create(n) => out.push(format!("create:{}", t.create(n).is_ok())),
                Op::Store(c) => out.push(format!("store:{}", t.try_store(c).is_ok())),
                Op::Inject(l) => out.push(format!("inject:{:?}", t.inject_tags(l, &le2))),
            }
            out.push(format!("has:{}", t.has_tags()));
        }
        out
    })
    .map_err(|_| "panic inside TagState".to_string());
    let mut r = TagStore::default();
    let mut exp = vec![];
    let mut interesting = false;
    for o in ops {
        match o {
            Op::Create(n) => {
                let ok = r.create(n).is_ok();
                if !ok {
                    interesting = true;
                }
                exp.push(format!("create:{ok}"));
            }
            Op::Store(c) => {
                let ok = match r.listening.take() {
                    Some(n) => {
                        r.stored.push((n, c.clone()));
                        true
                    }
                    None => false,
                };
                exp.push(format!("store:{ok}"));
            }
            Op::Inject(l) => {
                if r.stored.iter().any(|(n, _)| l.contains(n.as_str())) {
                    interesting = true;
                }
                exp.push(format!("inject:{:?}", r.inject(l, le)));
            }
        }
        exp.push(format!("has:{}", r.listening.is_some() || !r.stored.is_empty()));
    }
    match real {
        Err(p) => Err(format!("{p}; reference results {exp:?}")),
        Ok(real) => {
            if real != exp {
                let i = real.iter().zip(exp.iter()).position(|(a, b)| a != b).unwrap_or(0);
                Err(format!("step {}: txtpp {} / reference {} (all txtpp results {real:?})", i / 2, real[i], exp[i]))
            } else {
                Ok((interesting, real))
            }
        }
    }
}

fn check_ops(ctx: &mut Ctx, ops: &[Op], le: &str, reps: usize, key: u64) {
    let mut first: Option<Vec<String>> = None;
    for rep in 0..reps {
        ctx.evals += 1;
        match differential(ops, le) {
            Ok((interesting, res)) => {
                if interesting && rep == 0 {
                    ctx.distinct.insert(key);
                }
                match &first {
                    None => first = Some(res),
                    Some(f) => {
                        if *f != res {
                            ctx.violation("C14:store:nondeterministic", format!("ops {ops:?}: repetition {rep} gave {res:?}, first run gave {f:?}"), json!({"kind": "ops", "le": le, "ops": ops.iter().map(op_json).collect::<Vec<_>>()}));
                            return;
                        }
                    }
                }
            }
            Err(m) => {
                let kind = if m.starts_with("panic") {
                    "panic"
                } else if m.contains("create:") {
                    "create"
                } else if m.contains("inject:") {
                    "inject"
                } else {
                    "state"
                };
                ctx.violation(format!("C14:store:{kind}"), format!("ops {ops:?} le={le:?}: {m}"), json!({"kind": "ops", "le": le, "ops": ops.iter().map(op_json).collect::<Vec<_>>()}));
                return;
            }
        }
    }
}

fn run(ctx: &mut Ctx) {
    let shard = ctx.shard as u64;
    let shards = ctx.shards as u64;
    let names = names();
    let max_names = ctx.tier.pick(2, 3);
    let reps = ctx.tier.pick(3, 4);
    let fixed_line: String = format!("{} <> {}", names.iter().skip(1).cloned().collect::<Vec<_>>().join(" "), names.iter().skip(1).rev().cloned().collect::<Vec<_>>().join(""));
    // ordered sequences of distinct names
    let mut seqs: Vec<Vec<usize>> = vec![];
    for a in 0..names.len() {
        seqs.push(vec![a]);
        for b in 0..names.len() {
            if b == a {
                continue;
            }
            seqs.push(vec![a, b]);
            if max_names >= 3 {
                for c in 0..names.len() {
                    if c != a && c != b {
                        seqs.push(vec![a, b, c]);
                    }
                }
            }
        }
    }
    let mut case_no = 0u64;
    'outer: for seq in &seqs {
        case_no += 1;
        if case_no % shards != shard {
            continue;
        }
        // does every create succeed (reference)? if not: one case, no lines
        let mut r = TagStore::default();
        let mut all_ok = true;
        for &i in seq {
            if r.create(&names[i]).is_err() {
                all_ok = false;
                break;
            }
            let n = r.listening.take().unwrap();
            r.stored.push((n, "v".into()));
        }
        let k = seq.len();
        let line_max = match (ctx.tier, k) {
            (crate::fw::Tier::Quick, _) => 4,
            (crate::fw::Tier::Thorough, 3) => 4,
            (crate::fw::Tier::Thorough, 2) => 5,
            _ => 6,
        };
        let target_lines = if all_ok { lines(line_max) } else { vec!["AB".to_string()] };
        let n_contents = 5usize.pow(k as u32);
        let content_step = if all_ok { 1 } else { n_contents };
        let mut ci = 0;
        while ci < n_contents {
            let mut contents = vec![];
            let mut x = ci;
            for j in 0..k {
                let c = match x % 5 {
                    0 => String::new(),
                    1 => "v".to_string(),
                    2 => names[seq[(j + 1) % k]].clone(),
                    3 => "l1\nl2".to_string(),
                    _ => "l1\r\nl2\n".to_string(),
                };
                x /= 5;
                contents.push(c);
            }
            let mut prefix_ops = vec![];
            for (j, &i) in seq.iter().enumerate() {
                prefix_ops.push(Op::Create(names[i].clone()));
                prefix_ops.push(Op::Store(contents[j].clone()));
            }
            for (li, l) in target_lines.iter().enumerate() {
                let le = if (li + ci) % 2 == 0 { "\n" } else { "\r\n" };
                let mut ops = prefix_ops.clone();
                ops.push(Op::Inject(l.clone()));
                ops.push(Op::Inject(fixed_line.clone()));
                let key = hash_str(&format!("{seq:?}|{ci}|{l}|{le}"));
                check_ops(ctx, &ops, le, reps, key);
                if k >= 2 && ci == 7 && li == 9 {
                    ctx.sample(|| json!({"ops": ops.iter().map(op_json).collect::<Vec<_>>(), "le": le, "reference_results": differential(&ops, le).map(|r| r.1).unwrap_or_default()}));
                }
                if ctx.violations.len() >= 20 {
                    break 'outer;
                }
            }
            ci += content_step;
        }
        if !ctx.time_left() {
            ctx.exhaustive = Some(false);
            ctx.inconclusive("time budget exhausted before the tag enumeration completed");
            break;
        }
    }
    if ctx.exhaustive.is_none() {
        ctx.exhaustive = Some(true);
    }
    // ---- seeded random op sequences
    let mut rng = StdRng::seed_from_u64(ctx.shard_seed());
    let nrand = ctx.tier.pick(20_000, 300_000);
    let pool_names = ["A", "B", "AB", "BA", "ABA", "BAB", "AA", "", "x", "TAG", "TAG1", "\u{e9}", "\u{e9}A", "A\u{e9}"];
    let pool_content = ["", "v", "A", "AB", "l1\nl2", "l1\r\nl2\n", "\n", "B A"];
    let pool_lines = ["", "A", "AB", "ABA", "BAB", "xAx", "ABAB", "A B AB BA", "TAG1TAG", "\u{e9}A\u{e9}B", "AAB", "BBA", "A\u{e9}A", "\u{e9}\u{e9}A"];
    for i in 0..nrand {
        let n = rng.gen_range(1..=8);
        let ops: Vec<Op> = (0..n)
            .map(|_| match rng.gen_range(0..3) {
                0 => Op::Create(pool_names[rng.gen_range(0..pool_names.len())].to_string()),
                1 => Op::Store(pool_content[rng.gen_range(0..pool_content.len())].to_string()),
                _ => Op::Inject(pool_lines[rng.gen_range(0..pool_lines.len())].to_string()),
            })
            .collect();
        let le = if i % 2 == 0 { "\n" } else { "\r\n" };
        let key = hash_str(&format!("{ops:?}{le}"));
        check_ops(ctx, &ops, le, 2, key);
        ctx.count("random_op_sequences", 1);
    }
    // ---- whole-file scenarios
    let nfiles = ctx.tier.pick(150, 2500);
    for i in 0..nfiles {
        if !ctx.time_left() {
            break;
        }
        let src = gen_tag_file(&mut rng);
        check_file(ctx, &src, i % 2 == 0);
    }
}

/// whole-file tag scenario generator: create / store / use / error orders, tail lines,
/// directives without output between tag and producer
pub fn gen_tag_file(r: &mut StdRng) -> String {
    // (names with an inner blank are legal: the name is the whole trimmed argument)
    let tags = ["T1", "T2", "XY", "T", "T1X", "YX", "my tag", "item one", "item two"];
    let mut ls: Vec<String> = vec![];
    let n = r.gen_range(1..=5);
    for _ in 0..n {
        let tag = tags[r.gen_range(0..tags.len())];
        let ws = ["", "  ", "\t"][r.gen_range(0..3)];
        ls.push(format!("{ws}// TXTPP#tag {tag}"));
        let t = r.gen_range(0..100);
        if t < 6 {
            continue; // never stored: error at next tag or EOF
        }
        if r.gen_bool(0.3) {
            match r.gen_range(0..3) {
                0 => ls.push("-TXTPP# nothing".into()),
                1 => {
                    ls.push(format!("// TXTPP#temp tt{}.tmp", r.gen_range(0..3)));
                    ls.push("// body".into());
                }
                _ => ls.push("-TXTPP#after static.txt".into()),
            }
        }
        match r.gen_range(0..4) {
            0 => {
                ls.push(format!("{ws}// TXTPP#write {}", ["w1", "T2", "", "XY T1"][r.gen_range(0..4)]));
                if r.gen_bool(0.5) {
                    ls.push(format!("{ws}// second"));
                    if r.gen_bool(0.5) {
                        ls.push(format!("{ws}//"));
                    }
                }
            }
            1 => ls.push(format!("{ws}-TXTPP#run printf '{}'", ["x", "x\\n", "a\\nb", "a\\r\\nb\\r\\n", "", "T1", "one\\r\\r\\ntwo", "k\\r\\r\\n"][r.gen_range(0..8)])),
            2 => ls.push(format!("{ws}-TXTPP#include {}", ["static.txt", "nonl.txt", "crlf.txt", "dep.txt", "dep.txt"][r.gen_range(0..5)])),
            _ => ls.push(format!("{ws}-TXTPP#run echo {tag}")),
        }
        let u = r.gen_range(0..100);
        if u < 10 {
            continue; // stored, never used (error) or used later by chance
        }
        if r.gen_bool(0.3) {
            ls.push("spacer line".into());
        }
        let uses = [format!("<{tag}>"), tag.to_string(), format!("a {tag} b {tag} c"), format!("{tag}XY T1 T2"), format!("  pre{tag}post"), "T1T2XYT".to_string(), "YXT1X".to_string()];
        ls.push(uses[r.gen_range(0..uses.len())].clone());
    }
    if r.gen_bool(0.5) {
        ls.push("T1 T2 XY T T1X YX".into());
    }
    if r.gen_range(0..25) == 0 {
        // line-ending detection has to look past the usual buffer sizes (tag contents are
        // normalised to the detected ending)
        ls.insert(0, "x".repeat([8189usize, 8190, 8191, 8192, 8200, 20_000][r.gen_range(0..6)]));
    }
    let crlf = r.gen_bool(0.3);
    let mut s = ls.join(if crlf { "\r\n" } else { "\n" });
    if r.gen_bool(0.8) {
        s.push_str(if crlf { "\r\n" } else { "\n" });
    }
    s
}

fn tag_project(src: &str, trailing: bool) -> ProjectCase {
    let mut files = Files::new();
    files.insert("t.txt.txtpp".into(), src.as_bytes().to_vec());
    files.insert("static.txt".into(), b"s1\ns2\n".to_vec());
    files.insert("nonl.txt".into(), b"nonl".to_vec());
    files.insert("crlf.txt".into(), b"c1\r\nc2\r\n".to_vec());
    // a generated dependency: a file with a tag pending when it reaches `include dep.txt` is processed in two passes
    files.insert("dep.txt.txtpp".into(), b"dep line\n".to_vec());
    let mut c = ProjectCase::simple(files);
    c.trailing = trailing;
    // the unused-tag check and injection must not depend on the build flavour
    if src.len() % 3 == 0 {
        c.mode = txtpp::Mode::InMemoryBuild;
    }
    c
}

fn check_file(ctx: &mut Ctx, src: &str, trailing: bool) {
    let case = tag_project(src, trailing);
    let mut outs: Vec<Option<Vec<u8>>> = vec![];
    for _rep in 0..2 {
        let res = run_project(ctx, &case);
        if res.expect.out_of_domain.is_some() {
            ctx.count("files_out_of_domain", 1);
            return;
        }
        ctx.count("whole_file_runs", 1);
        if res.expect.verdict.is_err() {
            ctx.count("whole_file_expected_errors", 1);
        }
        for (sig, msg) in judge_project(&case, &res) {
            ctx.violation(format!("C14:file:{sig}"), format!("{msg}\nsource: {src:?}"), json!({"kind": "file", "src": src, "trailing": trailing}));
            return;
        }
        outs.push(res.after.files.get("t.txt").map(|e| e.bytes.clone()));
    }
    if outs[0] != outs[1] {
        ctx.violation("C14:file:nondeterministic", format!("two builds of the same source differ\nsource: {src:?}"), json!({"kind": "file", "src": src, "trailing": trailing}));
    }
    ctx.distinct.insert(hash_str(src));
}

fn replay(ctx: &mut Ctx, case: &Value) {
    match case["kind"].as_str() {
        Some("ops") => {
            let ops: Vec<Op> = case["ops"].as_array().map(|a| a.iter().filter_map(op_from).collect()).unwrap_or_default();
            check_ops(ctx, &ops, case["le"].as_str().unwrap_or("\n"), 8, 0);
        }
        Some("file") => check_file(ctx, case["src"].as_str().unwrap_or(""), case["trailing"].as_bool().unwrap_or(true)),
        _ => eprintln!("unknown case kind"),
    }
}
