//! C02, C03, C05: drivers over the graph engine.

use crate::fw::{Ctx, PropInfo, Tier};
use crate::props::graph::{account, dfs, exec, GraphCase, GraphRun};
use crate::sched::{FixedOrder, Spec, Strategy};
use rand::rngs::StdRng;
use rand::{Rng, SeedableRng};
use serde_json::{json, Value};
use txtpp::Mode;

const C02_CLASSES: &[&str] = &["deadlock", "panic-main", "panic-worker", "false-failure", "wrong-bytes", "missing-output", "double-complete", "obs-stale", "marker-count"];
const C03_CLASSES: &[&str] = &["deadlock", "panic-main", "panic-worker", "false-success-cycle", "false-success-fault", "wrong-bytes", "missing-output", "double-complete", "marker-count", "unrequired-processed"];
const C05_CLASSES: &[&str] = &["deadlock", "false-success-cycle", "false-failure", "false-circular", "bystander-wrong", "missing-output", "wrong-bytes"];

pub fn info_c02() -> PropInfo {
    PropInfo {
        id: "C02",
        level: "exploration",
        rule: "graph projects f0..f(n-1) (edge i->j = include, or after + run cat with an observation log of the checksum seen), unique head/tail tokens per generation, stale previous-generation outputs planted at every output path. Exhaustive part: every labelled DAG on <=3 files x edge-kind variants x every non-empty requested subset and the directory input x N in {1,2,3} threads x every gate schedule (stateless DFS by re-execution under the controller: begin gate, end gate, coordinator receive). 4 files: labelled DAGs x sampled subsets x random / adversarial fixed-order schedules. 5-8 files: random DAGs under free-running stress with seeded delays and N in {1,2,3,4,8,16}, natural flavour (idle sleeps kept) included. Modes Build and InMemoryBuild. Non-trivial = the graph has at least one edge (a dependency is actually waited for); distinct = distinct (case, schedule trace) hashes. Later graph variants (counted in the evidence as executions_with_variant_*): spaced (names with an inner blank), no_tail (source ends with its last directive), stale_ext (needed mode over fresh content + extra lines), linked (requested directory of links to the sources), empty_leaves (empty outputs, needed and plain build over stale files), outside (dependencies outside the base directory), stale_link (stale outputs that are links to copies elsewhere), prior (an earlier revision with hand-written files built in the same process and directory first), same_prefix (every directive uses one prefix, text ends each command block).",
        assumptions: &["reference model (sequential, dependency order) for expected bytes", "gate granularity: interleavings inside one task's file operations are reached only by the free-running part", "thread counts above 16 not run"],
        floor: (2_000, 50_000),
        shards: (16, 16),
        run: run_c02,
        replay: replay_c02,
    }
}

pub fn info_c03() -> PropInfo {
    PropInfo {
        id: "C03",
        level: "exploration",
        rule: "every labelled digraph with self loops on <=3 files (2^9=512 for n=3) x input selections (each non-empty subset by output name / source name / ./ alias / all three at once, the directory, directory + files) x N in {1,2,3} x every gate schedule (DFS); 4-file digraphs sampled with random and fixed-order schedules; variants with files in a sub-directory so that ScanDir tasks take part in the schedule. Monitors: logical deadlock predicate and worker-panic events (T1), at most one completion per file in the event trace (T3), required outputs present and equal to the sequential model on success (T4), per-file marker command executed exactly once. Non-trivial = at least two tasks were in flight at some point; distinct = distinct (case, schedule trace). Later additions: the graph variants listed in C02's rule; the empty input selection in all modes; a failing file (command, include, tag, undecodable source line) among 5-8 files under free-running schedules; CLI runs with RUST_LOG debug/trace (30 s bound); bounded-progress predicates for hangs outside the loop (Drop, spinning after the last poll, a worker stuck in its task).",
        assumptions: &["termination is decided logically by the hooks (no task in flight, every result received, done != total), never by wall-clock", "a non-terminating command is out of domain"],
        floor: (2_000, 50_000),
        shards: (16, 16),
        run: run_c03,
        replay: replay_c03,
    }
}

pub fn info_c05() -> PropInfo {
    PropInfo {
        id: "C05",
        level: "exploration",
        rule: "same enumeration as C03 (all digraphs with self loops on <=3 files x requested sets x N x DFS schedules; 4 files sampled). Oracle: reachability of a cycle from the requested set computed on the generated graph: (a) reaches a cycle => run must return an error (no success, no deadlock); (b) no cycle reachable => no failure; (c) every required file that cannot reach a cycle equals the sequential model after the run. Non-trivial = the graph contains a cycle; distinct = distinct (case, schedule trace). Later additions: the graph variants listed in C02's rule; acyclic projects with a failing file that others depend on (the failure must not be reported as a cycle: monitor false-circular); earlier cycle-free revisions built in the same process and directory first.",
        assumptions: &["reference model for bystander bytes", "cycle reachability computed by the harness (gen.rs Graph)"],
        floor: (2_000, 50_000),
        shards: (16, 16),
        run: run_c05,
        replay: replay_c05,
    }
}

fn report(ctx: &mut Ctx, prop: &str, classes: &[&str], case: &GraphCase, run: &GraphRun, spec: &Spec) -> bool {
    let mut any = false;
    for (class, msg) in &run.problems {
        if classes.contains(&class.as_str()) {
            any = true;
            let g = case.graph();
            let shape = format!("n={} edges={:?} requested={:?} inputs={} N={} mode={:?}", case.n, (0..case.n).map(|i| g.succ(i)).collect::<Vec<_>>(), case.requested, case.input_style, case.threads, case.mode);
            ctx.violation(format!("{prop}:{class}"), format!("{msg}\n{shape}\nschedule: {:?}", run.outcome.trace.choice_log), case.to_json(spec));
        }
    }
    any
}

fn acyclic_masks(n: usize) -> Vec<u64> {
    (0..(1u64 << (n * n))).filter(|m| crate::gen::Graph::from_mask(n, *m, 0).is_acyclic()).collect()
}

fn subsets(n: usize) -> Vec<Vec<usize>> {
    (1..(1u32 << n)).map(|b| (0..n).filter(|i| b >> i & 1 == 1).collect()).collect()
}

fn edge_count(mask: u64) -> u32 {
    mask.count_ones()
}

/// run DFS on one case, report, account. Returns false when the shard should stop.
fn dfs_case(ctx: &mut Ctx, prop: &'static str, classes: &'static [&'static str], case: &GraphCase, cap: u64, eager: bool, nontrivial: bool) -> bool {
    let chash = case.hash();
    let mut found = false;
    let st = dfs(ctx, case, cap, eager, |ctx, run, spec| {
        account(ctx, run);
        if nontrivial && case.n >= 2 {
            ctx.sample(|| crate::props::graph::sample_json(case, run, spec));
        }
        if nontrivial {
            ctx.distinct.insert(chash ^ run.trace_hash.rotate_left(13));
        }
        if matches!(run.outcome.verdict, crate::run::Verdict::Watchdog) {
            ctx.inconclusive(format!("watchdog in case {:?}", case.mask));
            return false;
        }
        if report(ctx, prop, classes, case, run, spec) {
            found = true;
            return false; // one counterexample per case is enough
        }
        true
    });
    ctx.count("dfs_cases", 1);
    ctx.count("dfs_executions", st.executions);
    ctx.count(&format!("dfs_executions_input_style_{}_threads_{}", case.input_style, case.threads), st.executions);
    ctx.max("largest_dfs", st.executions);
    if st.complete {
        ctx.count("dfs_cases_completed_exhaustively", 1);
    } else if !found {
        ctx.count("dfs_cases_capped", 1);
    }
    ctx.count("dfs_divergences_from_replayed_prefix", st.diverged);
    if !st.complete || st.diverged > 0 {
        ctx.exhaustive = Some(false);
    }
    ctx.violations.len() < 25 && ctx.time_left()
}

fn sampled_schedules(ctx: &mut Ctx, prop: &'static str, classes: &'static [&'static str], case: &GraphCase, r: &mut StdRng, n_random: usize, nontrivial: bool) {
    let mut specs: Vec<Spec> = vec![
        Spec::Controlled { strategy: Strategy::Fixed(FixedOrder::RunFirstLifo), early_poll_at: None, eager_recv: false },
        Spec::Controlled { strategy: Strategy::Fixed(FixedOrder::RecvFirstFifo), early_poll_at: None, eager_recv: false },
        Spec::Controlled { strategy: Strategy::Fixed(FixedOrder::DepsLast), early_poll_at: None, eager_recv: false },
    ];
    for _ in 0..n_random {
        specs.push(Spec::Controlled { strategy: Strategy::Random(r.gen()), early_poll_at: None, eager_recv: false });
    }
    // one execution in which the coordinator polls an empty channel while tasks are in flight
    // (it must then wait, not conclude that the work is done)
    specs.push(Spec::Controlled { strategy: Strategy::Random(r.gen()), early_poll_at: Some(r.gen_range(1..6)), eager_recv: false });
    for spec in specs {
        let run = exec(ctx, case, spec.clone(), true);
        account(ctx, &run);
        ctx.sample(|| crate::props::graph::sample_json(case, &run, &spec));
        ctx.count("sampled_controlled_executions", 1);
        if nontrivial {
            ctx.distinct.insert(case.hash() ^ run.trace_hash.rotate_left(13));
        }
        if report(ctx, prop, classes, case, &run, &spec) {
            break;
        }
    }
}

/// randomly controlled and adversarial fixed-order schedules on random graphs of 5-6 files
fn controlled_mid_size(ctx: &mut Ctx, prop: &'static str, classes: &'static [&'static str], r: &mut StdRng, cases: usize, acyclic_only: bool) {
    for _ in 0..cases {
        if !ctx.time_left() {
            break;
        }
        let n = r.gen_range(5..=6);
        let mut mask = 0u64;
        for i in 0..n {
            for j in (i + 1)..n {
                if r.gen_bool(0.35) {
                    mask |= 1 << (i * n + j);
                }
            }
        }
        if !acyclic_only && r.gen_bool(0.3) {
            let i = r.gen_range(0..n);
            let j = r.gen_range(0..=i);
            mask |= 1 << (i * n + j);
        }
        let mut case = GraphCase::new(n, mask);
        case.kinds = r.gen::<u64>() & mask;
        case.obs = case.kinds != 0;
        case.markers = r.gen_bool(0.5);
        case.threads = r.gen_range(1..=4);
        case.requested = (0..n).filter(|_| r.gen_bool(0.5)).collect();
        if case.requested.is_empty() {
            case.requested.push(0);
        }
        case.shaped = r.gen_bool(0.3);
        case.spaced = r.gen_bool(0.2);
        case.no_tail = r.gen_bool(0.25);
        if r.gen_bool(0.2) {
            case.prior = Some((mask, r.gen_range(1..(1u64 << n))));
        }
        sampled_schedules(ctx, prop, classes, &case, r, 4, mask != 0);
        ctx.count("mid_size_graph_cases", 1);
    }
}

fn free_stress(ctx: &mut Ctx, prop: &'static str, classes: &'static [&'static str], r: &mut StdRng, runs: usize, acyclic_only: bool) {
    for k in 0..runs {
        if !ctx.time_left() {
            break;
        }
        let n = r.gen_range(5..=8);
        // random DAG: edge i->j only for i<j, then maybe a back edge for cyclic variants
        let mut mask = 0u64;
        for i in 0..n {
            for j in (i + 1)..n {
                if r.gen_bool(0.3) {
                    mask |= 1 << (i * n + j);
                }
            }
        }
        if !acyclic_only && r.gen_bool(0.4) {
            let i = r.gen_range(0..n);
            let j = r.gen_range(0..=i);
            mask |= 1 << (i * n + j);
        }
        let mut case = GraphCase::new(n, mask);
        case.kinds = r.gen::<u64>() & mask;
        case.obs = true;
        case.threads = [1, 2, 3, 4, 8, 16][r.gen_range(0..6)];
        case.mode = if r.gen_bool(0.3) { Mode::InMemoryBuild } else { Mode::Build };
        case.input_style = [0, 1, 3, 4][r.gen_range(0..4)];
        case.requested = (0..n).filter(|_| r.gen_bool(0.5)).collect();
        if case.requested.is_empty() {
            case.requested.push(0);
        }
        case.subdirs = r.gen_bool(0.3);
        case.shaped = r.gen_bool(0.3);
        case.dup_edges = r.gen_bool(0.3);
        case.spaced = r.gen_bool(0.2);
        case.no_tail = r.gen_bool(0.25);
        case.same_prefix = r.gen_bool(0.25);
        case.stale_ext = matches!(case.mode, Mode::InMemoryBuild) && r.gen_bool(0.5);
        if r.gen_bool(0.2) {
            case.prior = Some((mask, r.gen_range(1..(1u64 << n))));
        }
        if (matches!(case.mode, Mode::InMemoryBuild) && r.gen_bool(0.3)) || (matches!(case.mode, Mode::Build) && r.gen_bool(0.15)) {
            case.empty_leaves = true;
            case.markers = false;
            case.stale = r.gen_bool(0.5) || matches!(case.mode, Mode::Build);
        }
        if !acyclic_only && r.gen_bool(0.15) {
            // an error result arrives while many other tasks are still queued or running: the run
            // must still return (with the error)
            case.fail_at = Some(r.gen_range(0..n));
            // (8: a line in the middle of the source cannot be decoded: the file is not processed to
            // completion, so the run must not report success)
            case.fail_kind = [0u8, 1, 2, 8, 8][r.gen_range(0..5)];
            case.input_style = 4;
            case.threads = [1, 2][r.gen_range(0..2)];
            ctx.count("free_running_executions_with_a_failing_file", 1);
        }
        let natural = k % 8 == 0;
        let spec = if natural { Spec::Natural { delay: Some((r.gen(), 1500)) } } else { Spec::Free { delay: Some((r.gen(), 800)) } };
        let run = exec(ctx, &case, spec.clone(), true);
        account(ctx, &run);
        ctx.sample(|| crate::props::graph::sample_json(&case, &run, &spec));
        ctx.count(if natural { "natural_flavour_executions" } else { "free_running_executions" }, 1);
        ctx.cover("thread_counts", &case.threads.to_string());
        if mask != 0 {
            ctx.distinct.insert(case.hash() ^ run.trace_hash.rotate_left(13));
        }
        report(ctx, prop, classes, &case, &run, &spec);
    }
}

// ------------------------------------------------------------------------------------- C02

fn quick_budget(ctx: &mut Ctx) {
    // the exhaustive <=3-file enumeration needs ~80 s on 16 cores (one large DFS dominates the tail)
    if std::env::var("VERIF_BUDGET").is_err() {
        // thorough: the full-interleaving pass and the 4-file sweeps need ~20 min on 16 cores
        ctx.budget = std::time::Duration::from_secs(ctx.tier.pick(110, 1500));
    }
}

/// natural flavour with slow commands: a coordinator that stops waiting while tasks are still
/// running shows as a missing final pass or a false failure (no gate or blocking here: real timing)
fn slow_natural(ctx: &mut Ctx, prop: &'static str, classes: &'static [&'static str]) {
    for j in 0..ctx.tier.pick(2u64, 12) {
        if !ctx.time_left() {
            break;
        }
        let i = j + ctx.shard as u64 * 5; // different shards take different variants
        if j == 0 {
            // commands whose output exceeds a pipe buffer: the worker has to drain stdout while the command runs
            let mut case = GraphCase::new(3, [0b100_010u64, 0b000_000_110, 0b100_110][(i % 3) as usize]);
            case.big = true;
            case.markers = false;
            case.threads = [1, 2][(i % 2) as usize];
            let spec = Spec::Free { delay: None };
            let run = exec(ctx, &case, spec.clone(), true);
            account(ctx, &run);
            ctx.count("big_command_output_executions", 1);
            ctx.distinct.insert(case.hash() ^ run.trace_hash.rotate_left(13));
            report(ctx, prop, classes, &case, &run, &spec);
        }
        let mut case = GraphCase::new(3, [0b100_010u64, 0b000_000_110, 0b100_110][(i % 3) as usize]); // chain, fan-out, triangle
        case.slow_ms = 900;
        case.markers = true;
        case.threads = [1, 3][(i % 2) as usize];
        case.input_style = [0, 4][((i / 2) % 2) as usize];
        let spec = Spec::Natural { delay: None };
        let run = exec(ctx, &case, spec.clone(), true);
        account(ctx, &run);
        ctx.count("natural_flavour_slow_command_executions", 1);
        ctx.distinct.insert(case.hash() ^ run.trace_hash.rotate_left(13));
        report(ctx, prop, classes, &case, &run, &spec);
    }
}

fn run_c02(ctx: &mut Ctx) {
    quick_budget(ctx);
    slow_natural(ctx, "C02", C02_CLASSES);
    let shard = ctx.shard as u64;
    let mut r = StdRng::seed_from_u64(ctx.shard_seed());
    let cap = 20_000;
    let mut k = 0u64;
    ctx.exhaustive = Some(true);
    // 4 files: labelled DAGs, sampled subsets, sampled schedules
    let dags4 = acyclic_masks(4);
    ctx.count("dags_on_4_files", if shard == 0 { dags4.len() as u64 } else { 0 });
    let per_shard = ctx.tier.pick(40, dags4.len());
    let mut idx = 0;
    for (i, mask) in dags4.iter().enumerate() {
        if !ctx.time_left() || ctx.violations.len() >= 25 {
            break;
        }
        if !ctx.claim(1_000_000 + i as u64) {
            continue;
        }
        idx += 1;
        if idx > per_shard {
            break;
        }
        let mut case = GraphCase::new(4, *mask);
        case.kinds = r.gen::<u64>() & mask;
        case.obs = case.kinds != 0;
        let subs = subsets(4);
        case.requested = subs[r.gen_range(0..subs.len())].clone();
        case.threads = r.gen_range(1..=4);
        case.dup_edges = r.gen_bool(0.3);
        case.spaced = r.gen_bool(0.25);
        case.no_tail = r.gen_bool(0.25);
        match r.gen_range(0..6) {
            0 => case.outside = true,
            1 => case.stale_link = true,
            _ => {}
        }
        if r.gen_bool(0.25) {
            case.mode = Mode::InMemoryBuild;
            case.stale_ext = r.gen_bool(0.7);
        }
        sampled_schedules(ctx, "C02", C02_CLASSES, &case, &mut r, ctx.tier.pick(3, 12), *mask != 0);
    }
    // both tiers: eager-receive DFS over a few 4-file shapes in which a file with dependencies is
    // itself a dependency next to a sibling (w -> {x -> y, z}, diamond, chain of four, fan-in + chain)
    for (si, mask) in [0b0000_0000_0100_1010u64, 0b0000_1000_1000_0110, 0b0000_1000_0100_0010, 0b0000_0000_0100_1110, 0b0000_1000_0100_0110, 0b0000_1000_1100_0010].iter().enumerate() {
        for threads in [1usize, 2] {
            if !ctx.claim(4_000_000 + si as u64 * 10 + threads as u64) {
                continue;
            }
            let mut case = GraphCase::new(4, *mask);
            case.markers = si % 2 == 0;
            case.threads = threads;
            dfs_case(ctx, "C02", C02_CLASSES, &case, 6_000, true, true);
            ctx.count("four_file_fixed_shapes_dfs", 1);
        }
    }
    // thorough: every labelled DAG on 4 files, everything requested, 2 threads, eager-receive DFS (capped)
    if ctx.tier == Tier::Thorough {
        for (i, mask) in dags4.iter().enumerate() {
            if !ctx.time_left() {
                break;
            }
            if !ctx.claim(3_000_000 + i as u64) {
                continue;
            }
            let mut case = GraphCase::new(4, *mask);
            case.markers = false;
            case.threads = 2;
            if !dfs_case(ctx, "C02", C02_CLASSES, &case, 4_000, true, *mask != 0) {
                break;
            }
            ctx.count("four_file_dags_dfs", 1);
        }
    }
    // early poll at every choice point of a few fixed graphs (chain, diamond, fan-in)
    for (n, mask) in [(3usize, 0b100_010u64), (4, 0b0000_1000_1000_0110), (3, 0b000_000_110)] {
        let points = ctx.tier.pick(4u32, 14);
        for at in 1..=points {
            if !ctx.claim(2_000_000 + (n as u64) * 100 + mask + at as u64 * 100_000) {
                continue;
            }
            let mut case = GraphCase::new(n, mask);
            case.threads = 2;
            let spec = Spec::Controlled { strategy: Strategy::Fixed(FixedOrder::RunFirstLifo), early_poll_at: Some(at), eager_recv: false };
            let run = exec(ctx, &case, spec.clone(), true);
            account(ctx, &run);
            ctx.distinct.insert(case.hash() ^ run.trace_hash.rotate_left(13));
            report(ctx, "C02", C02_CLASSES, &case, &run, &spec);
        }
    }
    // 5-8 files, free-running stress
    let n = ctx.tier.pick(60, 1500);
    free_stress(ctx, "C02", C02_CLASSES, &mut r, n, true);
    let m = ctx.tier.pick(6, 300);
    controlled_mid_size(ctx, "C02", C02_CLASSES, &mut r, m, true);
    // exhaustive part: n <= 3
    'all: for n in 1..=3usize {
        for mask in acyclic_masks(n) {
            let kinds_variants: Vec<(u64, bool)> = match ctx.tier {
                Tier::Quick => vec![(0, false), (mask & 0x1_5555_5555, true)],
                Tier::Thorough => vec![(0, false), (mask, true), (mask & 0x1_5555_5555, true), (mask & 0xAAAA_AAAA, false)],
            };
            for (kinds, obs) in kinds_variants {
                if kinds == 0 && obs {
                    continue;
                }
                let mut selections: Vec<(Vec<usize>, u8)> = subsets(n).into_iter().map(|s| (s, 0u8)).collect();
                selections.push(((0..n).collect(), 4));
                for (req, style) in selections {
                    for threads in 1..=3usize {
                        k += 1;
                        if !ctx.claim(k) {
                            continue;
                        }
                        let mut case = GraphCase::new(n, mask);
                        case.markers = k % 4 == 1;
                        case.kinds = kinds;
                        case.obs = obs;
                        case.requested = req.clone();
                        case.input_style = style;
                        case.threads = threads;
                        case.mode = if k % 5 == 0 { Mode::InMemoryBuild } else if k % 5 == 2 { Mode::Verify } else { Mode::Build };
                        if matches!(case.mode, Mode::Verify) {
                            case.stale = false; // correct outputs are planted: verify must pass under every schedule
                        }
                        // directory input: half of the cases keep odd files in a sub-directory, so that a
                        // file can be discovered as a dependency before its directory listing arrives
                        case.subdirs = style == 4 && n >= 2 && k % 2 == 0;
                        // a third of the cases name odd files `fN.v2.txtpp.txt` (dotted stem, middle shape)
                        case.shaped = n >= 2 && k % 3 == 0;
                        // names with an inner blank; sources that end with their last directive;
                        // needed-mode with "fresh content + extra lines" lying at every output path
                        case.spaced = k % 4 == 3;
                        case.no_tail = k % 7 == 3;
                        case.stale_ext = matches!(case.mode, Mode::InMemoryBuild) && k % 10 == 0;
                        // the requested directory holds only symbolic links to the sources
                        if style == 4 && k % 4 == 1 {
                            case.linked = true;
                            case.subdirs = false;
                        }
                        // an earlier revision built in the same process and directory, in which some
                        // files were still hand-written (no .txtpp source)
                        if k % 6 == 5 && !case.linked {
                            case.prior = Some((mask, (k / 6) % ((1u64 << n) - 1) + 1));
                        }
                        // named inputs: odd files outside the base directory; stale outputs that are
                        // symbolic links to copies kept elsewhere
                        if style == 0 && n >= 2 && k % 5 == 1 && !matches!(case.mode, Mode::Verify) {
                            case.outside = true;
                            case.subdirs = false;
                            case.prior = None;
                        }
                        if style == 0 && k % 5 == 3 && case.stale && !case.outside && !case.subdirs {
                            case.stale_link = true;
                        }
                        if k % 6 == 2 && !case.after_only && case.slow_ms == 0 {
                            case.same_prefix = true;
                        }
                        if matches!(case.mode, Mode::InMemoryBuild) && k % 15 == 5 && !case.markers {
                            case.empty_leaves = true;
                            case.stale = k % 30 == 5;
                        }
                        // plain build: an old non-empty file at the output path of a source whose
                        // fresh output is empty has to be emptied
                        if matches!(case.mode, Mode::Build) && k % 9 == 4 && !case.markers && !case.stale_link {
                            case.empty_leaves = true;
                            case.stale = true;
                        }
                        if !dfs_case(ctx, "C02", C02_CLASSES, &case, cap, true, edge_count(mask) > 0) {
                            break 'all;
                        }
                        // thorough: the coordinator's receive as a separate, freely interleaved step
                        if ctx.tier == Tier::Thorough && !dfs_case(ctx, "C02", C02_CLASSES, &case, cap, false, edge_count(mask) > 0) {
                            break 'all;
                        }
                    }
                }
            }
        }
    }
}

fn replay_graph(ctx: &mut Ctx, prop: &'static str, classes: &'static [&'static str], v: &Value) {
    if v["kind"].as_str() == Some("cli-logging") {
        cli_with_logging(ctx, prop);
        return;
    }
    let (case, spec) = GraphCase::from_json(v);
    let reps = if matches!(spec, Spec::Controlled { .. }) { 1 } else { 50 };
    for _ in 0..reps {
        let run = exec(ctx, &case, spec.clone(), true);
        println!("  run: verdict {} problems {:?}", run.outcome.verdict.short(), run.problems.iter().map(|p| &p.0).collect::<Vec<_>>());
        if report(ctx, prop, classes, &case, &run, &spec) {
            break;
        }
    }
}

fn replay_c02(ctx: &mut Ctx, v: &Value) {
    replay_graph(ctx, "C02", C02_CLASSES, v)
}

// ------------------------------------------------------------------------------- C03 / C05

fn digraph_enumeration(ctx: &mut Ctx, prop: &'static str, classes: &'static [&'static str], cyclic_only_nontrivial: bool) {
    quick_budget(ctx);
    let shard = ctx.shard as u64;
    let shards = ctx.shards as u64;
    let mut r = StdRng::seed_from_u64(ctx.shard_seed());
    let cap = 20_000;
    let mut k = 0u64;
    ctx.exhaustive = Some(true);
    // 4 files: sampled digraphs
    let n4 = ctx.tier.pick(60u64, 4096);
    for i in 0..n4 {
        if !ctx.time_left() || ctx.violations.len() >= 25 {
            break;
        }
        let mask: u64 = if ctx.tier == Tier::Thorough { (i * shards + shard) % 65536 } else { r.gen_range(0..65536) };
        let mut case = GraphCase::new(4, mask);
        // sparse-ish graphs are the interesting ones; thin out dense masks
        if mask.count_ones() > 8 {
            case.mask = mask & r.gen::<u64>();
        }
        let subs = subsets(4);
        case.requested = subs[r.gen_range(0..subs.len())].clone();
        case.input_style = [0, 3, 4][r.gen_range(0..3)];
        case.threads = r.gen_range(1..=4);
        case.subdirs = r.gen_bool(0.25);
        case.no_tail = r.gen_bool(0.3);
        case.spaced = r.gen_bool(0.15);
        if case.input_style == 0 && !case.subdirs && r.gen_bool(0.3) {
            // dependencies that live outside the base directory
            case.outside = true;
        }
        let cyclic = !case.graph().is_acyclic();
        sampled_schedules(ctx, prop, classes, &case, &mut r, 3, if cyclic_only_nontrivial { cyclic } else { true });
    }
    if !cyclic_only_nontrivial {
        empty_selection(ctx, prop, classes);
    }
    slow_natural(ctx, prop, classes);
    let n = ctx.tier.pick(40, 800);
    free_stress(ctx, prop, classes, &mut r, n, false);
    let m = ctx.tier.pick(5, 200);
    controlled_mid_size(ctx, prop, classes, &mut r, m, false);
    'all: for n in 1..=3usize {
        for mask in 0..(1u64 << (n * n)) {
            let g = crate::gen::Graph::from_mask(n, mask, 0);
            let cyclic = !g.is_acyclic();
            let mut selections: Vec<(Vec<usize>, u8)> = vec![];
            for s in subsets(n) {
                selections.push((s.clone(), 0));
                if ctx.tier == Tier::Thorough || s.len() == 1 {
                    selections.push((s.clone(), 3)); // duplicates + aliases
                }
                if ctx.tier == Tier::Thorough {
                    selections.push((s.clone(), 1));
                }
            }
            selections.push(((0..n).collect(), 4));
            selections.push(((0..n).collect(), 5));
            // verify mode over `after`-only edges with self-consistent outputs on disk (style 9)
            selections.push(((0..n).collect(), 9));
            // a directory that one file's command removes before / while it is scanned (style 8)
            selections.push(((0..n).collect(), 8));
            for s in subsets(n) {
                if s.len() == 1 {
                    selections.push((s, 9));
                }
            }
            for (req, style) in selections {
                let thread_set: &[usize] = if ctx.tier == Tier::Thorough { &[1, 2, 3] } else { &[1, 2] };
                for &threads in thread_set {
                    k += 1;
                    if style == 5 && threads > 1 && n == 3 && ctx.tier == Tier::Quick {
                        // two concurrent directory scans + 3 files + 2 threads: 40x the rest; thorough only
                        ctx.exhaustive = Some(false);
                        continue;
                    }
                    if !ctx.claim(k) {
                        continue;
                    }
                    let mut case = GraphCase::new(n, mask);
                    case.markers = k % 3 == 1;
                    case.requested = req.clone();
                    case.input_style = if style == 9 { 0 } else if style == 8 { 4 } else { style };
                    if style == 8 {
                        case.vanish = true;
                        case.markers = false;
                    }
                    if style == 9 {
                        case.mode = Mode::Verify;
                        case.stale = false;
                        case.after_only = true;
                    }
                    case.threads = threads;
                    case.kinds = if style == 9 { mask } else if k % 3 == 0 { mask & 0x1_5555_5555 } else { 0 };
                    case.subdirs = n >= 2 && k % 7 == 0 && style != 9;
                    // sources that end with their last dependency directive (no tail line): the edge
                    // pending at end of file must still count (cycle detection, ordering)
                    case.no_tail = style != 9 && k % 4 == 2;
                    case.spaced = style != 9 && k % 5 == 4;
                    case.same_prefix = style != 9 && style != 8 && k % 6 == 1;
                    if style == 4 && k % 3 == 1 {
                        // the requested directory holds only symbolic links to the sources
                        case.linked = true;
                        case.subdirs = false;
                    }
                    if style != 9 && style != 8 && k % 6 == 5 && !case.linked {
                        // an earlier, possibly cycle-free revision built in the same process and
                        // directory: some files were hand-written then, edges may have been added since
                        let earlier = if k % 12 == 5 { mask } else { mask & 0b101_110_011 & ((1u64 << (n * n)) - 1) };
                        case.prior = Some((earlier, (k / 6) % ((1u64 << n) - 1) + 1));
                    }
                    if style != 9 && style != 8 && k % 8 == 6 && !case.markers {
                        // only-if-needed mode over empty outputs that do not exist yet
                        case.mode = Mode::InMemoryBuild;
                        case.empty_leaves = true;
                        case.stale = k % 16 == 6;
                    }
                    if cyclic_only_nontrivial && !cyclic && n >= 2 && style == 0 && k % 3 == 2 && case.prior.is_none() && !case.empty_leaves {
                        // an acyclic project with a failing file that others depend on: the run must
                        // fail with that file's error, never with a circular-dependency report
                        case.fail_at = Some((k / 3) as usize % n);
                        case.fail_kind = [0u8, 1, 2][(k / 9) as usize % 3];
                        case.markers = false;
                    }
                    let nontrivial = if cyclic_only_nontrivial { cyclic } else { n >= 2 || style >= 3 };
                    if !dfs_case(ctx, prop, classes, &case, cap, true, nontrivial) {
                        break 'all;
                    }
                    if ctx.tier == Tier::Thorough && style == 0 && !dfs_case(ctx, prop, classes, &case, cap, false, nontrivial) {
                        break 'all;
                    }
                }
            }
        }
    }
}

/// An empty input selection (library API: `inputs: vec![]`) schedules nothing: the run must return
/// at once, successfully, in every mode, and touch nothing.
fn empty_selection(ctx: &mut Ctx, prop: &'static str, classes: &'static [&'static str]) {
    let mut k = 0u64;
    for mode in [Mode::Build, Mode::InMemoryBuild, Mode::Verify, Mode::Clean] {
        for threads in [1usize, 2, 4] {
            for flavour in 0..3 {
                k += 1;
                if !ctx.claim(9_000_000 + k) {
                    continue;
                }
                let mut case = GraphCase::new(2, 0b0010);
                case.requested = vec![];
                case.mode = mode.clone();
                case.threads = threads;
                case.markers = true;
                let spec = match flavour {
                    0 => Spec::Natural { delay: None },
                    1 => Spec::Free { delay: None },
                    _ => Spec::Controlled { strategy: Strategy::Fixed(FixedOrder::RunFirstLifo), early_poll_at: None, eager_recv: false },
                };
                let run = exec(ctx, &case, spec.clone(), true);
                account(ctx, &run);
                ctx.count("empty_selection_executions", 1);
                ctx.distinct.insert(case.hash() ^ run.trace_hash.rotate_left(13) ^ flavour);
                report(ctx, prop, classes, &case, &run, &spec);
            }
        }
    }
}

/// Termination through the binary with logging switched on by the environment (`RUST_LOG`): the
/// logger writes to stderr from every thread; a run must still end, with exit status 0 or 1.
fn cli_with_logging(ctx: &mut Ctx, prop: &'static str) {
    let mut k = 0u64;
    for (n, mask, expect_ok) in [(3usize, 0b100_010u64, true), (3, 0b000_000_110, true), (2, 0b0110, false), (1, 0b1, false)] {
        for level in ["debug", "trace", "txtpp=debug"] {
            for threads in [1usize, 4] {
                k += 1;
                if !ctx.claim(8_000_000 + k) {
                    continue;
                }
                let root = ctx.scratch.fresh();
                let g = crate::gen::Graph::from_mask(n, mask, 0);
                let files = crate::gen::graph_files(&g, 1, 0xc11, None, None, false);
                crate::util::materialize(&root, &files, &[]);
                let args: Vec<String> = vec!["-q".into(), "-j".into(), threads.to_string(), ".".into()];
                let o = crate::run::run_cli(&root, &args, &crate::run::CliOpts { env: vec![("RUST_LOG".into(), level.into())], timeout: Some(std::time::Duration::from_secs(30)), ..Default::default() });
                ctx.evals += 1;
                ctx.count("cli_runs_with_RUST_LOG", 1);
                ctx.distinct.insert(crate::util::hash_str(&format!("clilog{n}{mask}{level}{threads}")));
                let cj = json!({"kind": "cli-logging", "n": n, "mask": mask, "rust_log": level, "threads": threads});
                if o.timed_out {
                    ctx.violation(format!("{prop}:deadlock"), format!("`RUST_LOG={level} txtpp -q -j {threads} .` on a {n}-file project did not end within 30 s (without RUST_LOG it takes ~0.1 s)"), cj);
                } else if !matches!(o.code, Some(0) | Some(1)) {
                    ctx.violation(format!("{prop}:panic-main"), format!("`RUST_LOG={level} txtpp -q -j {threads} .` ended abnormally: {}", o.short()), cj);
                } else if (o.code == Some(0)) != expect_ok {
                    ctx.violation(format!("{prop}:{}", if expect_ok { "false-failure" } else { "false-success-cycle" }), format!("`RUST_LOG={level} txtpp -q -j {threads} .`: exit {:?}, expected {}", o.code, if expect_ok { 0 } else { 1 }), cj);
                }
                ctx.scratch.discard(&root);
            }
        }
    }
}

fn run_c03(ctx: &mut Ctx) {
    cli_with_logging(ctx, "C03");
    digraph_enumeration(ctx, "C03", C03_CLASSES, false);
}

fn replay_c03(ctx: &mut Ctx, v: &Value) {
    replay_graph(ctx, "C03", C03_CLASSES, v)
}

fn run_c05(ctx: &mut Ctx) {
    digraph_enumeration(ctx, "C05", C05_CLASSES, true);
}

fn replay_c05(ctx: &mut Ctx, v: &Value) {
    replay_graph(ctx, "C05", C05_CLASSES, v)
}


/// Supplementary sanitizer workload (`vh stress`): free-running, natural and randomly controlled
/// executions of random dependency graphs in one process, judged with the C02/C03 monitors. Meant
/// to be run from a ThreadSanitizer build (`./check tsan`); prints a one-line summary.
pub fn stress(iterations: usize, seed: u64) -> i32 {
    let mut ctx = Ctx::new("C02", Tier::Quick, seed, 0, 1);
    ctx.budget = std::time::Duration::from_secs(3600);
    let mut r = StdRng::seed_from_u64(seed);
    free_stress(&mut ctx, "C02", C02_CLASSES, &mut r, iterations, true);
    free_stress(&mut ctx, "C03", C03_CLASSES, &mut r, iterations / 2, false);
    for _ in 0..iterations / 2 {
        let n = r.gen_range(2..=4);
        let mut mask = 0u64;
        for i in 0..n {
            for j in (i + 1)..n {
                if r.gen_bool(0.5) {
                    mask |= 1 << (i * n + j);
                }
            }
        }
        let mut case = GraphCase::new(n, mask);
        case.threads = r.gen_range(1..=4);
        case.markers = false;
        sampled_schedules(&mut ctx, "C02", C02_CLASSES, &case, &mut r, 2, true);
    }
    println!(
        "stress: executions={} distinct_traces={} hook_events={} violations={}",
        ctx.evals,
        ctx.distinct.len(),
        ctx.counters.get("hook_events").copied().unwrap_or(0),
        ctx.violations.len()
    );
    for v in &ctx.violations {
        println!("  [{}] {}", v.sig, v.message.lines().next().unwrap_or(""));
    }
    if ctx.violations.is_empty() {
        0
    } else {
        1
    }
}
