//! C12 (one line ending), C13 (trailing-newline option), C16 (text passes through, write is inert).

use crate::fw::{Ctx, PropInfo};
use crate::gen::{gen_project, hostile_line, join_lines, GenOpts};
use crate::model;
use crate::props::common::{judge_project, run_project, run_project_at, ProjectCase};
use crate::run::Verdict;
use crate::util::{hash_str, show, Files};
use rand::rngs::StdRng;
use rand::{Rng, SeedableRng};
use serde_json::{json, Value};
use txtpp::Mode;

// ------------------------------------------------------------------------------------- C12

pub fn info_c12() -> PropInfo {
    PropInfo {
        id: "C12",
        level: "exploration",
        rule: "generated projects (C01 generator: LF / CRLF / mixed source endings chosen independently of included files, dependency outputs, printf outputs with \\r\\n, temp bodies, tag contents, write arguments) plus targeted sources whose first line fixes LF or CRLF and whose every other channel uses the opposite ending; monitor = byte scan of every output and temp file of every successful build: LF source => no CR anywhere; CRLF source => every LF preceded by CR and every CR followed by LF. Non-trivial = the source (or something it includes / runs / stores) contains the ending opposite to its first line; distinct = distinct project hashes. Later additions: histories (build, convert every source's line endings - also with a date-preserving tool - and rebuild in place with build or needed mode), verify and needed runs over the built tree with a re-scan, CRLF sources with non-UTF-8 paths.",
        assumptions: &["domain D1: CR occurs only immediately before LF in all inputs", "which temp file belongs to which source is taken from the reference model"],
        floor: (300, 3000),
        shards: (16, 16),
        run: run_c12,
        replay: replay_c12,
    }
}

/// first offending byte offset, if any
pub fn scan_le(b: &[u8], le: &str) -> Option<usize> {
    for i in 0..b.len() {
        let bad = if le == "\n" { b[i] == b'\r' } else { (b[i] == b'\n' && (i == 0 || b[i - 1] != b'\r')) || (b[i] == b'\r' && (i + 1 >= b.len() || b[i + 1] != b'\n')) };
        if bad {
            return Some(i);
        }
    }
    None
}

fn targeted_le_source(r: &mut StdRng) -> Files {
    let crlf_first = r.gen_bool(0.5);
    let (a, b) = if crlf_first { ("\r\n", "\n") } else { ("\n", "\r\n") };
    // the first line decides; its length crosses the usual read-buffer sizes in some cases
    let first_len = [10usize, 10, 10, 8189, 8190, 8191, 8192, 9000, 20_000][r.gen_range(0..9)];
    let mut s = format!("{}{a}", "f".repeat(first_len));
    let mut files = crate::gen::static_files();
    files.insert("opp.txt".into(), format!("o1{b}o2{b}").into_bytes());
    let n = r.gen_range(2..8);
    for _ in 0..n {
        let ws = ["", "  ", "\t"][r.gen_range(0..3)];
        match r.gen_range(0..9) {
            0 => s.push_str(&format!("text{b}")),
            1 => s.push_str(&format!("{ws}-TXTPP#include opp.txt{b}")),
            2 => s.push_str(&format!("{ws}-TXTPP#run printf 'p1{}p2{}'{b}", if crlf_first { "\\n" } else { "\\r\\n" }, if crlf_first { "\\n" } else { "\\r\\n" })),
            3 => s.push_str(&format!("{ws}// TXTPP#temp le{}.tmp{b}{ws}// body1{b}{ws}// body2{b}{ws}//{b}", r.gen_range(0..3))),
            4 => s.push_str(&format!("// TXTPP#tag TG{b}-TXTPP#include opp.txt{b}x TG y{b}")),
            5 => s.push_str(&format!("{ws}// TXTPP#write w1{b}{ws}// w2{b}{ws}//{b}")),
            6 => s.push_str(&format!("// TXTPP#tag TG{b}-TXTPP#run printf 'q1{}q2'{b}{b}<TG>{b}", if crlf_first { "\\n" } else { "\\r\\n" })),
            7 => s.push_str(&format!("// TXTPP#tag TG{b}-TXTPP#include {}{b}x TG y{b}", ["inc_mix_lf_first.txt", "inc_mix_crlf_first.txt", "inc_mixed.txt"][r.gen_range(0..3)])),
            _ => s.push_str(&format!("{ws}-TXTPP#include inc_mixed.txt{b}tail{a}")),
        }
    }
    files.insert("le.txt.txtpp".into(), s.into_bytes());
    files
}

/// all line endings of a text converted to the other kind
fn flip_endings(b: &[u8]) -> Vec<u8> {
    let t = String::from_utf8_lossy(b).to_string();
    if t.contains("\r\n") {
        t.replace("\r\n", "\n").into_bytes()
    } else {
        t.replace('\n', "\r\n").into_bytes()
    }
}

/// history: build, convert the line endings of every source, build again in the same directory
fn check_c12_history(ctx: &mut Ctx, case: &ProjectCase) {
    let root = ctx.scratch.fresh();
    let first = crate::props::common::run_project_at(ctx, case, &root, false);
    if !first.outcome.verdict.is_ok() || first.expect.out_of_domain.is_some() {
        ctx.scratch.discard(&root);
        return;
    }
    let mut flipped = case.clone();
    for s in model::sources(&case.files) {
        flipped.files.insert(s.clone(), flip_endings(&case.files[&s]));
    }
    // (half of the histories rebuild with the only-if-needed mode)
    if case.hash() % 2 == 0 {
        flipped.mode = Mode::InMemoryBuild;
    }
    // a third of the histories convert the sources with a date-preserving tool (`dos2unix -k`,
    // `cp -p`): the converted source keeps its old modification time, so everything generated by the
    // first build is *newer* than its source
    let preserve = case.hash() % 3 == 1;
    let mut old_times: Vec<(String, std::time::SystemTime)> = vec![];
    if preserve {
        for s in model::sources(&case.files) {
            if let Ok(t) = std::fs::metadata(root.join(&s)).and_then(|m| m.modified()) {
                // (one hour back, so that the order is clear on any timestamp granularity)
                old_times.push((s, t - std::time::Duration::from_secs(3600)));
            }
        }
        crate::util::materialize(&root, &flipped.files, &flipped.dirs);
        for (s, t) in &old_times {
            if let Ok(f) = std::fs::OpenOptions::new().write(true).open(root.join(s)) {
                let _ = f.set_modified(*t);
            }
        }
        ctx.count("conversion_histories_preserving_the_source_mtime", 1);
    }
    let second = if preserve {
        // (run_project_at would materialise the sources again and refresh their times)
        let cfg = flipped.cfg(&root);
        let before = crate::util::snap(&root);
        let outcome = crate::run::run_inproc(&cfg, flipped.spec.clone(), Some(&root), false);
        ctx.evals += 1;
        let after = crate::util::snap(&root);
        let expect = model::evaluate(&flipped.files, &root.to_string_lossy(), flipped.trailing, &flipped.requested());
        crate::props::common::ProjectResult { root: root.clone(), outcome, before, after, expect }
    } else {
        crate::props::common::run_project_at(ctx, &flipped, &root, false)
    };
    ctx.count("histories_with_converted_source_endings", 1);
    if second.outcome.verdict.is_ok() && second.expect.out_of_domain.is_none() {
        for (src, le) in &second.expect.built.le {
            let mut gens: Vec<String> = vec![model::output_of(src).unwrap()];
            gens.extend(second.expect.built.temp_owner.iter().filter(|(_, o)| *o == src).map(|(t, _)| t.clone()));
            for g in gens {
                if let Some(e) = second.after.files.get(&g) {
                    if let Some(i) = scan_le(&e.bytes, le) {
                        ctx.violation("C12:after-ending-conversion", format!("{g}: source {src} was converted to {le:?} endings and rebuilt in place, but byte {i} still breaks the single line ending: {}", show(&e.bytes)), flipped.to_json());
                    }
                }
            }
        }
        ctx.distinct.insert(case.hash().rotate_left(5));
    }
    ctx.scratch.discard(&root);
}

/// the other modes regenerate temp files too: after a build, a verify run and an only-if-needed run
/// over the same tree must leave every generated file with its single line ending
fn check_c12_other_modes(ctx: &mut Ctx, case: &ProjectCase) {
    let root = ctx.scratch.fresh();
    let first = crate::props::common::run_project_at(ctx, case, &root, false);
    if !first.outcome.verdict.is_ok() || first.expect.out_of_domain.is_some() {
        ctx.scratch.discard(&root);
        return;
    }
    for mode in [Mode::Verify, Mode::InMemoryBuild] {
        let mut c2 = case.clone();
        c2.mode = mode.clone();
        let o = crate::run::run_inproc(&c2.cfg(&root), c2.spec.clone(), Some(&root), false);
        ctx.evals += 1;
        ctx.count("verify_and_needed_runs_over_a_built_tree", 1);
        if matches!(o.verdict, crate::run::Verdict::Watchdog) {
            continue;
        }
        let now = crate::util::snap(&root);
        for (src, le) in &first.expect.built.le {
            let mut gens: Vec<String> = vec![model::output_of(src).unwrap()];
            gens.extend(first.expect.built.temp_owner.iter().filter(|(_, o)| *o == src).map(|(t, _)| t.clone()));
            for g in gens {
                if let Some(e) = now.files.get(&g) {
                    if let Some(i) = scan_le(&e.bytes, le) {
                        ctx.violation(
                            format!("C12:{}", if *le == "\n" { "cr-in-lf-file" } else { "bare-lf-or-cr-in-crlf-file" }),
                            format!("{g} (source {src}, first-line ending {le:?}) after a build followed by a {} run ({}): byte {i} breaks the single line ending; content {}", crate::run::mode_name(&mode), o.verdict.short(), show(&e.bytes)),
                            case.to_json(),
                        );
                    }
                }
            }
        }
    }
    ctx.scratch.discard(&root);
}

fn check_c12(ctx: &mut Ctx, case: &ProjectCase) {
    let res = run_project(ctx, case);
    if res.expect.out_of_domain.is_some() || !res.outcome.verdict.is_ok() {
        ctx.count("not_scanned_failed_or_out_of_domain", 1);
        return;
    }
    let mut opposite = false;
    for (src, le) in &res.expect.built.le {
        let body = &case.files[src];
        let has_crlf = body.windows(2).any(|w| w == b"\r\n");
        let has_lf_only = (0..body.len()).any(|i| body[i] == b'\n' && (i == 0 || body[i - 1] != b'\r'));
        if (*le == "\n" && has_crlf) || (*le == "\r\n" && has_lf_only) || String::from_utf8_lossy(body).contains("crlf") || String::from_utf8_lossy(body).contains("\\r\\n") || String::from_utf8_lossy(body).contains("mixed") || (*le == "\r\n") {
            opposite = true;
        }
        let out = model::output_of(src).unwrap();
        let mut gens: Vec<String> = vec![out];
        for (t, owner) in &res.expect.built.temp_owner {
            if owner == src {
                gens.push(t.clone());
            }
        }
        ctx.cover("line_endings", if *le == "\n" { "LF" } else { "CRLF" });
        for g in gens {
            if let Some(e) = res.after.files.get(&g) {
                ctx.count("files_scanned", 1);
                if let Some(i) = scan_le(&e.bytes, le) {
                    ctx.violation(
                        format!("C12:{}", if *le == "\n" { "cr-in-lf-file" } else { "bare-lf-or-cr-in-crlf-file" }),
                        format!("{g} (source {src}, first-line ending {le:?}): byte {i} breaks the single line ending; content {}", show(&e.bytes)),
                        case.to_json(),
                    );
                }
            }
        }
    }
    if opposite {
        ctx.distinct.insert(case.hash());
    }
}

fn run_c12(ctx: &mut Ctx) {
    let mut r = StdRng::seed_from_u64(ctx.shard_seed());
    let n = ctx.tier.pick(2000, 60_000);
    for i in 0..n {
        if !ctx.time_left() || ctx.violations.len() > 20 {
            break;
        }
        let case = if i % 2 == 0 {
            let mut c = ProjectCase::simple(targeted_le_source(&mut r));
            c.trailing = r.gen_bool(0.5);
            c
        } else {
            let p = gen_project(&mut r, &GenOpts { error_pct: 1, ..GenOpts::default() });
            let mut c = ProjectCase::simple(p.files);
            c.trailing = p.trailing;
            c
        };
        check_c12(ctx, &case);
        if i % 5 == 0 {
            check_c12_history(ctx, &case);
        }
        if i % 5 == 2 {
            check_c12_other_modes(ctx, &case);
        }
        if i % 100 == 7 {
            // CRLF and LF sources whose names / directories are not valid UTF-8
            let (findings, cj) = crate::props::rawnames::scenario(ctx, &mut r);
            for f in findings.iter().filter(|f| f.class == "naming" && f.msg.contains("wrong bytes")) {
                ctx.violation("C12:bare-lf-or-cr-in-crlf-file", format!("source with a non-UTF-8 path: {}", f.msg), cj.clone());
            }
            ctx.distinct.insert(hash_str(&format!("raw{i}{}", ctx.shard)));
        }
        if i == 0 {
            ctx.sample(|| json!({"source": String::from_utf8_lossy(&case.files["le.txt.txtpp"])}));
        }
    }
}

fn replay_c12(ctx: &mut Ctx, v: &Value) {
    if v["kind"].as_str() == Some("raw-names") {
        let mut r = StdRng::seed_from_u64(3);
        for _ in 0..10 {
            let (findings, cj) = crate::props::rawnames::scenario(ctx, &mut r);
            for f in findings.iter().filter(|f| f.class == "naming" && f.msg.contains("wrong bytes")) {
                ctx.violation("C12:bare-lf-or-cr-in-crlf-file", f.msg.clone(), cj.clone());
            }
        }
        return;
    }
    check_c12(ctx, &ProjectCase::from_json(v));
    check_c12_other_modes(ctx, &ProjectCase::from_json(v));
}

// ------------------------------------------------------------------------------------- C13

pub fn info_c13() -> PropInfo {
    PropInfo {
        id: "C13",
        level: "exploration",
        rule: "single-source projects whose last items enumerate every end-of-file state (text, blank line(s), text without final newline, each directive kind with outputs {none, x, x\\n, multi-line, stored in a tag}, tag use on the last line, empty file, directive followed by a tail line) x LF/CRLF, plus C01-generator sources without dependency includes; each built twice in the same directory with the option on and off (library flag; a sample through the CLI -n flag). Additional cases: the source is built only because a requested file names it in `after` (it must honour the option as well), and a needed-build with the other setting over an existing tree. Monitor: on == off, or on == off + exactly one line ending; a source ending in a text line must end with line+le (on) and without le (off); temp files identical. Non-trivial = the two outputs differ or the source ends in a directive; distinct = distinct sources. Later additions: needed-builds into a directory without outputs; same-directory histories for sources built only as dependencies; two-pass sources (a generated dependency first, then plain includes without final newline followed by text); CLI sample with -j 0/1, -N and RUST_LOG debug/trace.",
        assumptions: &["judged for sources whose directive results do not depend on the option (no include/cat of another .txtpp source's output), DESIGN §5 C13 domain note"],
        floor: (300, 3000),
        shards: (16, 16),
        run: run_c13,
        replay: replay_c13,
    }
}

fn eof_source(r: &mut StdRng) -> String {
    let crlf = r.gen_bool(0.3);
    let le = if crlf { "\r\n" } else { "\n" };
    let mut ls: Vec<String> = vec![];
    for _ in 0..r.gen_range(0..3) {
        ls.push(["text", "", "  x", "-TXTPP# comment"][r.gen_range(0..4)].to_string());
    }
    let ws = ["", "  "][r.gen_range(0..2)];
    let mut final_nl = r.gen_bool(0.7);
    match r.gen_range(0..16) {
        0 => ls.push("last text".into()),
        1 => ls.push("".into()),
        2 => {
            ls.push("".into());
            ls.push("".into());
        }
        3 => {
            ls.push("no newline at end".into());
            final_nl = false;
        }
        4 => ls.push(format!("{ws}-TXTPP#run printf 'x'")),
        5 => ls.push(format!("{ws}-TXTPP#run printf 'x\\n'")),
        6 => ls.push(format!("{ws}-TXTPP#run printf 'a\\nb'")),
        7 => ls.push(format!("{ws}-TXTPP#run true")),
        8 => ls.push(format!("{ws}-TXTPP#include inc_nl.txt")),
        9 => ls.push(format!("{ws}-TXTPP#include inc_nonl.txt")),
        10 => {
            ls.push(format!("{ws}// TXTPP#write w1"));
            ls.push(format!("{ws}// w2"));
            if r.gen_bool(0.5) {
                ls.push(format!("{ws}//"));
            }
        }
        11 => {
            ls.push("// TXTPP#temp eof.tmp".into());
            ls.push("// body".into());
            if r.gen_bool(0.5) {
                ls.push("//".into());
            }
        }
        12 => {
            ls.push("// TXTPP#tag TG".into());
            ls.push("-TXTPP#run printf 'v\\n'".into());
            ls.push("".into());
            ls.push("use TG".into());
        }
        13 => ls.push("-TXTPP#".into()),
        14 => {
            ls.push("-TXTPP#run printf 'x'".into());
            ls.push("tail after directive".into());
        }
        _ => {}
    }
    let mut s = ls.join(le);
    if final_nl && !ls.is_empty() {
        s.push_str(le);
    }
    s
}

fn check_c13(ctx: &mut Ctx, files: &Files, seed_note: &str) {
    let root = ctx.scratch.fresh();
    let mut outs: Vec<(Files, Verdict, model::Expect)> = vec![];
    for trailing in [true, false] {
        ctx.scratch.reuse(&root);
        let mut c = ProjectCase::simple(files.clone());
        c.trailing = trailing;
        let res = run_project_at(ctx, &c, &root, false);
        outs.push((res.after.bytes(), res.outcome.verdict.clone(), res.expect));
    }
    if outs[0].2.out_of_domain.is_some() {
        // (D7 etc.: nothing about such a project is judged, the history checks below included)
        ctx.count("out_of_domain", 1);
        ctx.scratch.discard(&root);
        return;
    }
    // an only-if-needed build into a directory without outputs must give what a build gives
    if outs[0].1.is_ok() && outs[1].1.is_ok() {
        for trailing in [true, false] {
            ctx.scratch.reuse(&root);
            let mut c = ProjectCase::simple(files.clone());
            c.trailing = trailing;
            c.mode = Mode::InMemoryBuild;
            let res = run_project_at(ctx, &c, &root, false);
            let now = res.after.bytes();
            let want = &outs[if trailing { 0 } else { 1 }].0;
            if !res.outcome.verdict.is_ok() || &now != want {
                let bad: Vec<&String> = want.keys().filter(|k| now.get(*k) != want.get(*k)).collect();
                ctx.violation("C13:needed-on-a-fresh-tree", format!("needed-build with trailing={trailing} into a directory without outputs: verdict {}, files differing from a build with the same setting: {bad:?}", res.outcome.verdict.short()), json!({"files": crate::util::files_json(files)}));
            }
        }
    }
    // history: a tree built with one setting, then a needed-build with the other setting must
    // give exactly what a fresh build with that other setting gives
    if outs[0].1.is_ok() && outs[1].1.is_ok() {
        for (first, second) in [(true, false), (false, true)] {
            ctx.scratch.reuse(&root);
            let mut c = ProjectCase::simple(files.clone());
            c.trailing = first;
            let _ = run_project_at(ctx, &c, &root, false);
            let mut c2 = c.clone();
            c2.trailing = second;
            c2.mode = Mode::InMemoryBuild;
            let cfg = c2.cfg(&root);
            let o = crate::run::run_inproc(&cfg, c2.spec.clone(), Some(&root), false);
            ctx.evals += 1;
            let now = crate::util::snap(&root).bytes();
            let want = &outs[if second { 0 } else { 1 }].0;
            if !o.verdict.is_ok() || &now != want {
                let bad: Vec<&String> = want.keys().filter(|k| now.get(*k) != want.get(*k)).collect();
                ctx.violation("C13:needed-after-option-change", format!("tree built with trailing={first}, then needed-build with trailing={second}: verdict {}, files differing from a fresh build with trailing={second}: {bad:?}", o.verdict.short()), json!({"files": crate::util::files_json(files)}));
            }
        }
    }
    ctx.scratch.discard(&root);
    let (on, von, eon) = &outs[0];
    let (off, voff, _) = &outs[1];
    if eon.out_of_domain.is_some() {
        ctx.count("out_of_domain", 1);
        return;
    }
    if von.is_ok() != voff.is_ok() {
        ctx.violation("C13:verdict-differs", format!("verdict on={} off={}", von.short(), voff.short()), json!({"files": crate::util::files_json(files)}));
        return;
    }
    if !von.is_ok() {
        ctx.count("failed_builds_skipped", 1);
        return;
    }
    let mut nontrivial = false;
    for src in model::sources(files) {
        let text = String::from_utf8_lossy(&files[&src]).to_string();
        // domain: skip includers of other sources' outputs
        let (ls, le) = model::split(&text);
        let out = model::output_of(&src).unwrap();
        let a = on.get(&out).cloned().unwrap_or_default();
        let b = off.get(&out).cloned().unwrap_or_default();
        let ok = a == b || (a.len() == b.len() + le.len() && a.starts_with(&b) && &a[b.len()..] == le.as_bytes());
        if a != b {
            nontrivial = true;
        }
        if !ok {
            ctx.violation("C13:more-than-final-line-ending", format!("{out}: on={} off={} ({seed_note})", show(&a), show(&b)), json!({"files": crate::util::files_json(files)}));
        }
        // a source ending with an ordinary text line
        if let Ok(items) = model::parse(&ls) {
            match items.last() {
                Some(model::Item::Text(_)) => {
                    ctx.cover("eof_states", "text");
                    nontrivial = true;
                    let mut want = b.clone();
                    want.extend_from_slice(le.as_bytes());
                    if a != want {
                        ctx.violation("C13:text-ending-source", format!("{out}: source ends with an ordinary text line, so on must equal off + one line ending: on={} off={} ({seed_note})", show(&a), show(&b)), json!({"files": crate::util::files_json(files)}));
                    }
                }
                Some(model::Item::Dir(d)) => {
                    nontrivial = true;
                    ctx.cover("eof_states", &format!("dir:{}", d.name));
                }
                None => ctx.cover("eof_states", "empty"),
            }
        }
    }
    // temp files and everything else identical
    for (k, v) in on {
        if model::sources(files).iter().any(|s| model::output_of(s).as_deref() == Some(k.as_str())) {
            continue;
        }
        if off.get(k) != Some(v) {
            ctx.violation("C13:option-changed-non-output", format!("{k} differs between the two settings: on={} off={}", show(v), show(off.get(k).map(|x| &x[..]).unwrap_or(b""))), json!({"files": crate::util::files_json(files)}));
        }
    }
    if nontrivial {
        ctx.distinct.insert(crate::util::hash_files(files));
    }
}

/// on/off differential for `watched` when only `inputs` are requested (it is reached as a dependency)
fn check_c13_requested(ctx: &mut Ctx, files: &Files, inputs: &[String], watched: &str) {
    let root = ctx.scratch.fresh();
    let mut outs: Vec<(Option<Vec<u8>>, Verdict)> = vec![];
    for trailing in [true, false] {
        ctx.scratch.reuse(&root);
        let mut c = ProjectCase::simple(files.clone());
        c.trailing = trailing;
        c.inputs = inputs.to_vec();
        c.recursive = false;
        c.requested = Some(vec![format!("{}.txtpp", inputs[0])]);
        let res = run_project_at(ctx, &c, &root, false);
        if res.expect.out_of_domain.is_some() {
            ctx.scratch.discard(&root);
            return;
        }
        outs.push((res.after.files.get(watched).map(|e| e.bytes.clone()), res.outcome.verdict.clone()));
    }
    // history on one directory: build with one setting, build again with the other while naming
    // only the top file: the dependency must be regenerated with the current setting
    if outs.len() == 2 && outs[0].1.is_ok() && outs[1].1.is_ok() {
        for (first, second) in [(true, false), (false, true)] {
            ctx.scratch.reuse(&root);
            let mut c = ProjectCase::simple(files.clone());
            c.inputs = inputs.to_vec();
            c.recursive = false;
            c.requested = Some(vec![format!("{}.txtpp", inputs[0])]);
            c.trailing = first;
            let _ = run_project_at(ctx, &c, &root, false);
            c.trailing = second;
            let res = run_project_at(ctx, &c, &root, false);
            let got = res.after.files.get(watched).map(|e| e.bytes.clone());
            let want = &outs[if second { 0 } else { 1 }].0;
            if res.outcome.verdict.is_ok() && &got != want {
                ctx.violation("C13:dependency:stale-after-option-change", format!("{watched} is built only as a dependency of {inputs:?}; after a build with trailing={first} and a second build with trailing={second} in the same directory it is {} (a fresh build with trailing={second} gives {})", show(got.as_deref().unwrap_or(b"")), show(want.as_deref().unwrap_or(b""))), json!({"files": crate::util::files_json(files), "inputs": inputs, "watched": watched}));
            }
        }
    }
    ctx.scratch.discard(&root);
    ctx.count("dependency_only_cases", 1);
    if !(outs[0].1.is_ok() && outs[1].1.is_ok()) {
        return;
    }
    let src = format!("{watched}.txtpp");
    let text = String::from_utf8_lossy(&files[&src]).to_string();
    let (ls, le) = model::split(&text);
    let (a, b) = (outs[0].0.clone().unwrap_or_default(), outs[1].0.clone().unwrap_or_default());
    let cj = json!({"files": crate::util::files_json(files), "inputs": inputs, "watched": watched});
    let ok = a == b || (a.len() == b.len() + le.len() && a.starts_with(&b) && &a[b.len()..] == le.as_bytes());
    if !ok {
        ctx.violation("C13:dependency:more-than-final-line-ending", format!("{watched} (built as a dependency of {inputs:?}): on={} off={}", show(&a), show(&b)), cj.clone());
    }
    if let Ok(items) = model::parse(&ls) {
        if matches!(items.last(), Some(model::Item::Text(_))) {
            let mut want = b.clone();
            want.extend_from_slice(le.as_bytes());
            if a != want {
                ctx.violation("C13:dependency:text-ending-source", format!("{watched} is built only as a dependency of {inputs:?} and ends with an ordinary text line, so on must equal off + one line ending: on={} off={}", show(&a), show(&b)), cj);
            }
            ctx.distinct.insert(crate::util::hash_files(files) ^ 0xdeb);
        }
    }
}

fn run_c13(ctx: &mut Ctx) {
    let mut r = StdRng::seed_from_u64(ctx.shard_seed());
    // (the directed loops run first: the general loop below uses whatever budget is left)
    // a source that is built only as a dependency of the requested file must honour the option too
    let ndep = ctx.tier.pick(40, 1500);
    for i in 0..ndep {
        if !ctx.time_left() {
            break;
        }
        let mut files = crate::gen::static_files();
        let dep_dir = ["", "sub/", "sub/deep/"][i % 3];
        files.insert(format!("{dep_dir}d.txt.txtpp"), eof_source(&mut r).into_bytes());
        files.insert("t.txt.txtpp".into(), format!("-TXTPP#after {dep_dir}d.txt\ntop line\n").into_bytes());
        check_c13_requested(ctx, &files, &["t.txt".to_string()], &format!("{dep_dir}d.txt"));
    }
    // two-pass sources: the file has a `.txtpp` dependency (so everything after the `after` line is
    // executed in its second pass) and then includes plain files / runs commands; the option must
    // still change nothing but the final line ending
    let ntwo = ctx.tier.pick(400, 6000);
    for i in 0..ntwo {
        if !ctx.time_left() || ctx.violations.len() > 20 {
            break;
        }
        let mut files = crate::gen::static_files();
        files.insert("d.txt.txtpp".into(), b"dependency\n".to_vec());
        let body = if i % 2 == 0 {
            eof_source(&mut r)
        } else {
            let o = GenOpts { max_sources: 1, error_pct: 0, ..GenOpts::default() };
            crate::gen::gen_source(&mut r, &o, "", &[], false, 0)
        };
        let le = if body.contains("\r\n") && r.gen_bool(0.5) { "\r\n" } else { "\n" };
        let mid = ["", "-TXTPP#include inc_nonl.txt\ntext after a plain include without final newline\n", "-TXTPP#include inc_nl.txt\nx\n"][i % 3];
        files.insert("e.txt.txtpp".into(), format!("-TXTPP#after d.txt{le}{mid}{body}").into_bytes());
        ctx.count("two_pass_sources", 1);
        check_c13(ctx, &files, &format!("two-pass case {i}"));
    }
    let n = ctx.tier.pick(1200, 12_000);
    for i in 0..n {
        if !ctx.time_left() || ctx.violations.len() > 20 {
            break;
        }
        let mut files = crate::gen::static_files();
        if i % 3 != 2 {
            files.insert("e.txt.txtpp".into(), eof_source(&mut r).into_bytes());
        } else {
            let o = GenOpts { max_sources: 1, error_pct: 0, ..GenOpts::default() };
            let src = crate::gen::gen_source(&mut r, &o, "", &[], false, 0);
            files.insert("e.txt.txtpp".into(), src.into_bytes());
        }
        check_c13(ctx, &files, &format!("case {i}"));
        if i == 0 {
            ctx.sample(|| json!({"source": String::from_utf8_lossy(&files["e.txt.txtpp"])}));
        }
    }
    // CLI -n mapping on a few sources
    let ncli = ctx.tier.pick(6, 60);
    for _ in 0..ncli {
        let mut files = crate::gen::static_files();
        files.insert("e.txt.txtpp".into(), b"one\ntwo\n".to_vec());
        let root = ctx.scratch.fresh();
        crate::util::materialize(&root, &files, &[]);
        // option spellings and surroundings that must not matter: thread counts including 0, the
        // only-if-needed flag, logging switched on through the environment
        let extra: Vec<String> = [vec![], vec!["-j", "0"], vec!["-j", "1"], vec!["-N"], vec!["-N", "-j", "0"]][r.gen_range(0..5)].iter().map(|x: &&str| x.to_string()).collect();
        let env: Vec<(String, String)> = match r.gen_range(0..4) {
            0 => vec![("RUST_LOG".into(), "debug".into())],
            1 => vec![("RUST_LOG".into(), "trace".into())],
            _ => vec![],
        };
        let opts = crate::run::CliOpts { env: env.clone(), ..Default::default() };
        let mut args1: Vec<String> = vec!["-q".into()];
        args1.extend(extra.iter().cloned());
        args1.push("e.txt".into());
        let mut args2: Vec<String> = vec!["-q".into(), "-n".into()];
        args2.extend(extra.iter().cloned());
        args2.push("e.txt".into());
        let a1 = crate::run::run_cli(&root, &args1, &opts);
        let on = std::fs::read(root.join("e.txt")).unwrap_or_default();
        let _ = std::fs::remove_file(root.join("e.txt"));
        let a2 = crate::run::run_cli(&root, &args2, &opts);
        let off = std::fs::read(root.join("e.txt")).unwrap_or_default();
        ctx.evals += 2;
        ctx.count("cli_runs", 2);
        ctx.cover("cli_surroundings", &format!("{extra:?} {env:?}"));
        if a1.code != Some(0) || a2.code != Some(0) || on != b"one\ntwo\n" || off != b"one\ntwo" {
            ctx.violation("C13:cli-flag", format!("CLI `txtpp {}` gives {} (exit {:?}), `txtpp {}` gives {} (exit {:?}); environment {env:?}", args1.join(" "), show(&on), a1.code, args2.join(" "), show(&off), a2.code), json!({"kind": "cli"}));
        }
        ctx.scratch.discard(&root);
    }
}

fn replay_c13(ctx: &mut Ctx, v: &Value) {
    if let (Some(w), Some(inp)) = (v["watched"].as_str(), v["inputs"].as_array()) {
        let inputs: Vec<String> = inp.iter().filter_map(|x| x.as_str().map(String::from)).collect();
        check_c13_requested(ctx, &crate::util::files_from_json(&v["files"]), &inputs, w);
        return;
    }
    if v["kind"].as_str() == Some("cli") {
        println!("CLI case: run `txtpp -q e.txt` and `txtpp -q -n e.txt` on a source `one\\ntwo\\n`");
        return;
    }
    check_c13(ctx, &crate::util::files_from_json(&v["files"]), "replay");
}

// ------------------------------------------------------------------------------------- C16

pub fn info_c16() -> PropInfo {
    PropInfo {
        id: "C16",
        level: "exploration",
        rule: "hostile text generator: 1-40 lines concatenated from an alphabet of directive look-alikes (TXTPP#, -TXTPP#include x, TXTPP#writ, TXTPP#run<TAB>echo ...), tag names, prefixes, blanks, shell metacharacters, non-ASCII; LF/CRLF, with/without final newline, both trailing-newline settings. (1) texts without any directive line (by the reference recogniser) must be reproduced line for line; (2) every text T (first line without leading blank, no trailing blanks) is escaped as `-TXTPP#write t1 / -t2 / ...` and must be reproduced exactly, also while a stored tag whose name occurs in T exists (the tag is consumed by a later line); (3) in mixed sources the ordinary lines appear in order and unmodified (checked by the reference model). Non-trivial = the text contains TXTPP# or a tag name; distinct = distinct texts. Later additions: carriage returns that are line content, a byte order mark in front of the first line, build -> shorten source -> needed-build histories, write-escape round trips through the CLI with RUST_LOG set.",
        assumptions: &["reference recogniser decides what a directive line is", "blanks are space and tab"],
        floor: (500, 5000),
        shards: (16, 16),
        run: run_c16,
        replay: replay_c16,
    }
}

fn expected_passthrough(lines: &[String], le: &str, trailing: bool) -> Vec<u8> {
    let mut s = lines.join(le);
    if trailing && !lines.is_empty() {
        s.push_str(le);
    }
    s.into_bytes()
}

fn check_identity(ctx: &mut Ctx, lines: &[String], crlf: bool, final_nl: bool, trailing: bool) {
    let le = if crlf { "\r\n" } else { "\n" };
    let src = join_lines(lines, crlf, final_nl);
    let mut files = Files::new();
    files.insert("t.txt.txtpp".into(), src.clone().into_bytes());
    let mut case = ProjectCase::simple(files);
    case.trailing = trailing;
    let res = run_project(ctx, &case);
    let case_json = json!({"kind": "identity", "lines": lines, "crlf": crlf, "final_nl": final_nl, "trailing": trailing});
    if !res.outcome.verdict.is_ok() {
        ctx.violation("C16:identity:build-failed", format!("a directive-free text failed to build: {}\ntext {src:?}", res.outcome.verdict.short()), case_json);
        return;
    }
    // a source with no line at all, or a single empty line without newline, has no lines
    let got = res.after.files.get("t.txt").map(|e| e.bytes.clone()).unwrap_or_default();
    let effective: Vec<String> = model::split(&src).0;
    // the line ending is the first line's; with a single line without newline it is the OS default (LF)
    let le_eff = if !src.contains('\n') { "\n" } else { le };
    let want = expected_passthrough(&effective, le_eff, trailing);
    if got != want {
        ctx.violation("C16:identity:bytes", format!("directive-free text not reproduced: got {} expected {}", show(&got), show(&want)), case_json);
    }
    if src.contains("TXTPP#") || src.contains("TAG") {
        ctx.distinct.insert(hash_str(&src));
    }
}

/// Carriage returns that are line *content*: inside a line anywhere, and at the end of a line's
/// content in a CRLF file (`keep\r` + `\r\n`), or in a text without any LF (one line). They are not
/// line endings and must be reproduced. (In an LF file a CR right before the LF is a CRLF ending of
/// that line and is normalised - C12 - so it is not generated there.)
fn check_identity_cr(ctx: &mut Ctx, r: &mut StdRng, trailing: bool) {
    let crlf = r.gen_bool(0.6);
    let le = if crlf { "\r\n" } else { "\n" };
    let n = r.gen_range(1..=6);
    let single = r.gen_bool(0.15);
    let mut lines: Vec<String> = vec![];
    for _ in 0..if single { 1 } else { n } {
        let mut l = String::new();
        for _ in 0..r.gen_range(1..4) {
            l.push_str(["word", "x", "TXTPP#", " ", "\u{e9}", "a b"][r.gen_range(0..6)]);
            if r.gen_bool(0.4) {
                l.push('\r');
            }
        }
        if !(crlf || single) {
            l = l.trim_end_matches('\r').to_string();
        } else if r.gen_bool(0.3) {
            l.push_str(["\r", "\r\r"][r.gen_range(0..2)]);
        }
        if model::detect(&l).is_none() {
            lines.push(l);
        }
    }
    if lines.is_empty() || !lines.iter().any(|l| l.contains('\r')) {
        return;
    }
    let final_nl = !single && r.gen_bool(0.7);
    let mut src = lines.join(le);
    if final_nl {
        src.push_str(le);
    }
    if single {
        // no LF anywhere: the whole text is one line, the OS default ending applies
        src = lines[0].clone();
    }
    let mut files = Files::new();
    files.insert("t.txt.txtpp".into(), src.clone().into_bytes());
    let mut case = ProjectCase::simple(files);
    case.trailing = trailing;
    let res = run_project(ctx, &case);
    ctx.count("identity_cases_with_carriage_returns_in_line_content", 1);
    let cj = json!({"kind": "identity-cr", "source": src, "trailing": trailing});
    if !res.outcome.verdict.is_ok() {
        ctx.violation("C16:identity:build-failed", format!("a directive-free text failed to build: {}\ntext {src:?}", res.outcome.verdict.short()), cj);
        return;
    }
    let got = res.after.files.get("t.txt").map(|e| e.bytes.clone()).unwrap_or_default();
    // a text without any LF is a single line and gets the OS default ending
    let want = expected_passthrough(&lines, if !src.contains('\n') { "\n" } else { le }, trailing);
    if got != want {
        ctx.violation("C16:identity:bytes", format!("directive-free text with carriage returns inside line content not reproduced: got {} expected {}", show(&got), show(&want)), cj);
    }
    ctx.distinct.insert(hash_str(&format!("cr{src}")));
}

/// history on one directory: build T, shorten the source to a strict prefix of T (or only switch
/// the trailing-newline option off), rebuild with the only-if-needed mode: the output must be the
/// text of the *current* source
fn check_identity_history(ctx: &mut Ctx, lines: &[String], crlf: bool, trailing: bool, r: &mut StdRng) {
    if lines.len() < 2 {
        return;
    }
    let le = if crlf { "\r\n" } else { "\n" };
    let root = ctx.scratch.fresh();
    let mut files = Files::new();
    files.insert("t.txt.txtpp".into(), join_lines(lines, crlf, true).into_bytes());
    let mut case = ProjectCase::simple(files);
    case.trailing = true;
    let first = crate::props::common::run_project_at(ctx, &case, &root, false);
    if !first.outcome.verdict.is_ok() {
        ctx.scratch.discard(&root);
        return;
    }
    let keep = r.gen_range(1..=lines.len());
    let shorter = &lines[..keep];
    let _ = std::fs::write(root.join("t.txt.txtpp"), join_lines(shorter, crlf, true));
    let mut c2 = case.clone();
    c2.mode = Mode::InMemoryBuild;
    c2.trailing = trailing;
    let cfg = c2.cfg(&root);
    let o = crate::run::run_inproc(&cfg, c2.spec.clone(), Some(&root), false);
    ctx.evals += 1;
    ctx.count("identity_needed_histories", 1);
    let got = std::fs::read(root.join("t.txt")).unwrap_or_default();
    let effective: Vec<String> = model::split(&join_lines(shorter, crlf, true)).0;
    let want = expected_passthrough(&effective, le, trailing);
    let cj = json!({"kind": "identity-history", "lines": lines, "keep": keep, "crlf": crlf, "trailing": trailing});
    if !o.verdict.is_ok() {
        if !matches!(o.verdict, crate::run::Verdict::Watchdog) {
            ctx.violation("C16:identity:build-failed", format!("needed-build of a directive-free text failed: {}", o.verdict.short()), cj);
        }
    } else if got != want {
        ctx.violation("C16:identity:bytes", format!("after shortening the source to its first {keep} line(s) (trailing newline {trailing}) and a needed-build, the output is not the text of the source: got {} expected {}", show(&got), show(&want)), cj);
    }
    ctx.scratch.discard(&root);
}

fn check_escape(ctx: &mut Ctx, lines: &[String], crlf: bool, trailing: bool, with_tag: Option<&str>) {
    // T must have no leading blank on the first line and no trailing blanks anywhere
    let le = if crlf { "\r\n" } else { "\n" };
    let mut src_lines: Vec<String> = vec![];
    if let Some(tag) = with_tag {
        src_lines.push(format!("// TXTPP#tag {tag}"));
        src_lines.push("// TXTPP#write STORED".to_string());
        src_lines.push("".to_string());
    }
    let first_text_line = if with_tag.is_some() { Some("head".to_string()) } else { None };
    if let Some(h) = &first_text_line {
        src_lines.push(h.clone());
    }
    for (i, l) in lines.iter().enumerate() {
        if i == 0 {
            src_lines.push(format!("-TXTPP#write {l}"));
        } else {
            src_lines.push(format!("-{l}"));
        }
    }
    // terminate the write block with an empty argument line so that the following text starts on its own line
    src_lines.push("-".to_string());
    let closing = match with_tag {
        Some(tag) => format!("closing {tag}"),
        None => "closing".to_string(),
    };
    src_lines.push(closing.clone());
    let src = join_lines(&src_lines, crlf, true);
    let mut files = Files::new();
    files.insert("t.txt.txtpp".into(), src.clone().into_bytes());
    let mut case = ProjectCase::simple(files);
    case.trailing = trailing;
    let res = run_project(ctx, &case);
    let case_json = json!({"kind": "escape", "lines": lines, "crlf": crlf, "trailing": trailing, "with_tag": with_tag});
    if !res.outcome.verdict.is_ok() {
        ctx.violation("C16:escape:build-failed", format!("write-escaped text failed to build: {}\nsource {src:?}", res.outcome.verdict.short()), case_json);
        return;
    }
    let got = res.after.files.get("t.txt").map(|e| e.bytes.clone()).unwrap_or_default();
    let mut want_lines: Vec<String> = vec![];
    if let Some(h) = &first_text_line {
        want_lines.push(String::new()); // the empty line that ends the tag's write directive
        want_lines.push(h.clone());
    }
    want_lines.extend(lines.iter().cloned());
    want_lines.push(match with_tag {
        Some(_) => "closing STORED".to_string(),
        None => closing,
    });
    let want = expected_passthrough(&want_lines, le, trailing);
    if got != want {
        ctx.violation(
            if with_tag.is_some() { "C16:escape:tag-substituted-or-altered" } else { "C16:escape:not-reproduced" },
            format!("write-escape of {lines:?} not reproduced: got {} expected {}", show(&got), show(&want)),
            case_json,
        );
    }
    let joined = lines.join("\n");
    if joined.contains("TXTPP#") || with_tag.map(|t| joined.contains(t)).unwrap_or(false) {
        ctx.distinct.insert(hash_str(&format!("esc{src}")));
    }
    // the same source through the binary, with logging switched on by the environment: the log
    // level must not change a single byte of the output
    if got == want && hash_str(&src) % 25 == 0 {
        let level = ["debug", "trace", "txtpp=debug", "info", "txtpp=trace,warn"][(hash_str(&src) / 25 % 5) as usize];
        let root = ctx.scratch.fresh();
        let mut files = Files::new();
        files.insert("t.txt.txtpp".into(), src.clone().into_bytes());
        crate::util::materialize(&root, &files, &[]);
        let mut args: Vec<String> = vec!["-q".into()];
        if !trailing {
            args.push("-n".into());
        }
        args.push("t.txt".into());
        let o = crate::run::run_cli(&root, &args, &crate::run::CliOpts { env: vec![("RUST_LOG".into(), level.into())], ..Default::default() });
        ctx.evals += 1;
        ctx.count("cli_runs_with_RUST_LOG", 1);
        ctx.cover("rust_log_levels", level);
        let out = std::fs::read(root.join("t.txt")).unwrap_or_default();
        if !o.timed_out && (o.code != Some(0) || out != want) {
            ctx.violation("C16:escape:not-reproduced", format!("through the CLI with RUST_LOG={level}: exit {:?}, output {} expected {}", o.code, show(&out), show(&want)), json!({"kind": "escape-cli-env", "lines": lines, "crlf": crlf, "trailing": trailing, "with_tag": with_tag, "rust_log": level}));
        }
        ctx.scratch.discard(&root);
    }
}

/// write output stored in a tag is inert as well: when it is injected, a tag name it contains is
/// not substituted again, and the later tag is still substituted at its own place
fn check_two_tags(ctx: &mut Ctx, crlf: bool, trailing: bool, middle: &str) {
    let src_lines: Vec<String> = vec![
        "// TXTPP#tag T1".into(),
        format!("// TXTPP#write <{middle} T2 {middle}>"),
        "".into(),
        "// TXTPP#tag T2".into(),
        "// TXTPP#write second".into(),
        "".into(),
        "use T1 then T2.".into(),
    ];
    let src = join_lines(&src_lines, crlf, true);
    let mut files = Files::new();
    files.insert("t.txt.txtpp".into(), src.clone().into_bytes());
    let mut case = ProjectCase::simple(files);
    case.trailing = trailing;
    let res = run_project(ctx, &case);
    ctx.count("two_tag_cases", 1);
    let le = if crlf { "\r\n" } else { "\n" };
    let want = expected_passthrough(&["".to_string(), "".to_string(), format!("use <{middle} T2 {middle}> then second.")], le, trailing);
    let got = res.after.files.get("t.txt").map(|e| e.bytes.clone()).unwrap_or_default();
    let cj = json!({"kind": "two-tags", "crlf": crlf, "trailing": trailing, "middle": middle});
    if !res.outcome.verdict.is_ok() {
        ctx.violation("C16:two-tags:build-failed", format!("{}\nsource {src:?}", res.outcome.verdict.short()), cj);
    } else if got != want {
        ctx.violation("C16:two-tags:written-text-rescanned", format!("got {} expected {}", show(&got), show(&want)), cj);
    }
    ctx.distinct.insert(hash_str(&format!("two{src}{trailing}")));
}

fn check_mixed(ctx: &mut Ctx, seed: u64) {
    // ordinary lines in order and unmodified inside directive-bearing sources: the model comparison
    let mut r = StdRng::seed_from_u64(seed);
    let o = GenOpts { max_sources: 1, error_pct: 0, commands: false, ..GenOpts::default() };
    let p = gen_project(&mut r, &o);
    let mut case = ProjectCase::simple(p.files);
    case.trailing = p.trailing;
    let res = run_project(ctx, &case);
    ctx.count("mixed_sources_vs_model", 1);
    for (sig, msg) in judge_project(&case, &res) {
        ctx.violation(format!("C16:mixed:{sig}"), msg, json!({"kind": "mixed", "seed": seed}));
    }
}

fn run_c16(ctx: &mut Ctx) {
    let mut r = StdRng::seed_from_u64(ctx.shard_seed());
    let n = ctx.tier.pick(3000, 100_000);
    for i in 0..n {
        if !ctx.time_left() || ctx.violations.len() > 20 {
            break;
        }
        let nl = r.gen_range(1..=if i % 10 == 0 { 40 } else { 8 });
        let crlf = r.gen_bool(0.3);
        let trailing = r.gen_bool(0.6);
        match i % 3 {
            0 => {
                // directive-free text: drop lines the reference recogniser classifies as directives
                let lines: Vec<String> = (0..nl).map(|_| hostile_line(&mut r, true, true)).filter(|l| model::detect(l).is_none()).collect();
                if lines.is_empty() {
                    continue;
                }
                let final_nl = r.gen_bool(0.7);
                let mut lines = lines;
                if r.gen_range(0..12) == 0 {
                    // a byte order mark is part of the first line's text
                    let with_bom = format!("\u{feff}{}", lines[0]);
                    if model::detect(&with_bom).is_none() {
                        lines[0] = with_bom;
                        ctx.count("identity_cases_starting_with_a_byte_order_mark", 1);
                    }
                }
                check_identity(ctx, &lines, crlf, final_nl, trailing);
                ctx.count("identity_cases", 1);
                if i % 4 == 0 {
                    check_identity_cr(ctx, &mut r, trailing);
                }
                if i % 9 == 0 {
                    check_identity_history(ctx, &lines, crlf, trailing, &mut r);
                }
                if i == 0 {
                    ctx.sample(|| json!({"identity_text": lines}));
                }
            }
            1 => {
                let mut lines: Vec<String> = (0..nl).map(|k| hostile_line(&mut r, k != 0, false)).collect();
                if lines[0].is_empty() && lines.len() == 1 {
                    lines[0] = "TXTPP#run echo x".into();
                }
                let tag = if r.gen_bool(0.4) { Some(["TAG1", "TAG", "T", "XY"][r.gen_range(0..4)]) } else { None };
                check_escape(ctx, &lines, crlf, trailing, tag);
                ctx.count("escape_cases", 1);
                if i == 1 {
                    ctx.sample(|| json!({"escaped_text": lines, "stored_tag": tag}));
                }
            }
            _ => check_mixed(ctx, r.gen()),
        }
        if i % 50 == 0 {
            let middle = ["", "TXTPP#run echo x", "T1", "\u{e9}"][r.gen_range(0..4)];
            check_two_tags(ctx, crlf, trailing, middle);
        }
    }
}

fn replay_c16(ctx: &mut Ctx, v: &Value) {
    let lines: Vec<String> = v["lines"].as_array().map(|a| a.iter().filter_map(|x| x.as_str().map(String::from)).collect()).unwrap_or_default();
    match v["kind"].as_str() {
        Some("identity") => check_identity(ctx, &lines, v["crlf"].as_bool().unwrap_or(false), v["final_nl"].as_bool().unwrap_or(true), v["trailing"].as_bool().unwrap_or(true)),
        Some("escape") => check_escape(ctx, &lines, v["crlf"].as_bool().unwrap_or(false), v["trailing"].as_bool().unwrap_or(true), v["with_tag"].as_str()),
        Some("mixed") => check_mixed(ctx, v["seed"].as_u64().unwrap_or(0)),
        Some("identity-cr") => {
            let mut r = StdRng::seed_from_u64(11);
            for _ in 0..300 {
                check_identity_cr(ctx, &mut r, v["trailing"].as_bool().unwrap_or(true));
            }
        }
        Some("identity-history") => {
            let mut r = StdRng::seed_from_u64(11);
            for _ in 0..20 {
                check_identity_history(ctx, &lines, v["crlf"].as_bool().unwrap_or(false), v["trailing"].as_bool().unwrap_or(true), &mut r);
            }
        }
        Some("two-tags") => check_two_tags(ctx, v["crlf"].as_bool().unwrap_or(false), v["trailing"].as_bool().unwrap_or(true), v["middle"].as_str().unwrap_or("")),
        _ => {}
    }
}

#[allow(dead_code)]
fn unused(_: Mode) {}
