//! C11 — exactly the requested sources are processed and outputs are named correctly.
//! Generated directory trees x input lists x recursion x base/cwd combinations; the processed
//! set is *observed* (outputs appearing in a build from an output-free tree, planted outputs
//! disappearing in clean, per-source marker commands in build and verify) and compared with the
//! set computed by the harness's own reading of the rule.

use crate::fw::{Ctx, PropInfo};
use crate::model;
use crate::props::tree_props::selected_sources;
use crate::run::{run_cli, run_inproc, CliOpts, RunCfg, Verdict};
use crate::sched::Spec;
use crate::util::{files_from_json, files_json, materialize, show, snap, Files};
use rand::rngs::StdRng;
use rand::{Rng, SeedableRng};
use serde_json::{json, Value};
use std::collections::{BTreeMap, BTreeSet};
use std::path::{Path, PathBuf};
use txtpp::Mode;

pub fn info() -> PropInfo {
    PropInfo {
        id: "C11",
        level: "exploration",
        rule: "generated trees: directories '', a, a/b, a/b/c, z and a directory named d.txtpp; sources in the three name shapes crossed with stems containing 0, 1 and 2 dots (s.txt.txtpp, s.txtpp.md, s.txtpp, p.q.txt.txtpp, p.q.txtpp.md, p.q.txtpp, u.v.w.txtpp.x) and a non-ASCII name; look-alikes that are not sources (txtpp, .txtpp, n.txtpp.b.c, x.txtppx); in a quarter of the trees a symbolic link to a source in another directory and/or a symbolic link to a directory (a linked source counts as its target: processed once, output beside the target); some sources include the output of a source in another directory (dependency). Input lists of 1-3 entries from {directories (plain, ./, dir/../dir, absolute), sources by .txtpp name, by output name, with ./ or absolute, duplicates and aliases of the same file, missing targets, look-alike names} x recursive on/off x (process cwd == base | cwd below base | cwd unrelated '/' | base given relative to the cwd) through the library entry, and a CLI sample with relative inputs. Observation: build from an output-free tree (which outputs appear, bytes vs model, marker count per source), clean over planted outputs for every source (which disappear), verify after a full build (marker count per source). Expected set = selected sources (+ transitive .txtpp dependencies for build and verify); a missing target must fail the run. Non-trivial = the selection is a proper non-empty subset of the sources or an alias/duplicate/missing target is involved; distinct = distinct (tree, inputs, flags, mode). Later additions: up to three dependency includes per source, verbatim includes of another source's .txtpp file (no dependency), empty sources, a plainly named link to a source elsewhere (not a source of that directory), non-UTF-8 file and directory names (rawnames scenario), special layouts (page.html.txtpp + page.txtpp.html side by side, directory inputs outside the base given as ../docs or absolute, the empty input list).",
        assumptions: &["D10: every output path has exactly one source; symbolic links only in the two shapes listed in the rule", "marker commands sit after the dependency directives (two-pass execution before the first dependency is documented behaviour)"],
        floor: (400, 6000),
        shards: (16, 16),
        run,
        replay,
    }
}

const DIRS: [&str; 6] = ["", "a", "a/b", "a/b/c", "z", "d.txtpp"];
const NAMES: [&str; 8] = ["s.txt.txtpp", "s2.txtpp.md", "s3.txtpp", "p.q.txt.txtpp", "p.r.txtpp.md", "p.t.txtpp", "u.v.w.txtpp.x", "n\u{e4}m.txt.txtpp"];
const LOOKALIKES: [&str; 4] = ["txtpp", ".txtpp", "n.txtpp.b.c", "x.txtppx"];

#[derive(Debug, Clone)]
struct Case {
    /// (link path, link target as written in the link, canonical project path it resolves to)
    symlinks: Vec<(String, String, String)>,
    files: Files,
    inputs: Vec<String>,
    recursive: bool,
    /// 0 cwd==base, 1 cwd below base (a), 2 cwd '/', 3 base relative to cwd (parent)
    cwd_kind: u8,
    mode: Mode,
    threads: usize,
}

fn marker_id(src: &str) -> String {
    src.chars().map(|c| if c.is_ascii_alphanumeric() { c } else { '_' }).collect()
}

fn gen_tree(r: &mut StdRng, mlog: &Path) -> Files {
    let mut files = Files::new();
    let mut outs: Vec<String> = vec![];
    for d in DIRS {
        for n in NAMES {
            if r.gen_bool(0.35) {
                let p = if d.is_empty() { n.to_string() } else { format!("{d}/{n}") };
                outs.push(model::output_of(&p).unwrap());
                files.insert(p, vec![]);
            }
        }
        for l in LOOKALIKES {
            if r.gen_bool(0.3) {
                let p = if d.is_empty() { l.to_string() } else { format!("{d}/{l}") };
                files.insert(p, b"not a source\n".to_vec());
            }
        }
    }
    if !files.keys().any(|k| model::is_txtpp(k)) {
        files.insert("s.txt.txtpp".into(), vec![]);
        outs.push("s.txt".into());
    }
    // make sure the directories exist even when empty of sources
    for d in DIRS {
        if !d.is_empty() {
            files.insert(format!("{d}/static.txt"), b"static\n".to_vec());
        }
    }
    let srcs: Vec<String> = files.keys().filter(|k| model::is_txtpp(k)).cloned().collect();
    for (i, s) in srcs.iter().enumerate() {
        let dir = model::dir_of(s).to_string();
        let mut body = String::new();
        if r.gen_range(0..12) == 0 {
            // an empty source: its output is the empty file (it still has to be created)
            files.insert(s.clone(), vec![]);
            continue;
        }
        // dependencies on later sources' outputs (acyclic by construction), up to three
        let mut used: Vec<usize> = vec![];
        for _ in 0..3 {
            if i + 1 < srcs.len() && r.gen_bool(0.3) {
                let k = r.gen_range(i + 1..srcs.len());
                if used.contains(&k) {
                    continue;
                }
                used.push(k);
                let dep_out = model::output_of(&srcs[k]).unwrap();
                body.push_str(&format!("-TXTPP#include {}\n", crate::gen::rel(&dir, &dep_out)));
            }
        }
        if srcs.len() > 1 && r.gen_range(0..7) == 0 {
            // the *source text* of another source spliced verbatim: naming a `.txtpp` file is a
            // plain include, not a dependency
            let k = (i + 1 + r.gen_range(0..srcs.len() - 1)) % srcs.len();
            body.push_str(&format!("-TXTPP#include {}\n", crate::gen::rel(&dir, &srcs[k])));
        }
        body.push_str(&format!("//TXTPP#run echo {} >> {}\n", marker_id(s), mlog.display()));
        body.push_str(&format!("body of {s}\n"));
        files.insert(s.clone(), body.into_bytes());
    }
    let _ = outs;
    files
}

/// symbolic links inside the tree: a link to a source in another directory and a link to a directory
fn gen_links(r: &mut StdRng, files: &Files) -> Vec<(String, String, String)> {
    let mut v = vec![];
    let srcs: Vec<String> = files.keys().filter(|k| model::is_txtpp(k) && !k.starts_with("z/")).cloned().collect();
    if r.gen_bool(0.25) && !srcs.is_empty() {
        let t = &srcs[r.gen_range(0..srcs.len())];
        v.push(("z/lnk.txt.txtpp".to_string(), format!("../{t}"), t.clone()));
    }
    if r.gen_bool(0.15) {
        v.push(("zl".to_string(), "a/b".to_string(), "a/b".to_string()));
    }
    if r.gen_bool(0.2) && !srcs.is_empty() {
        // a link whose own name is *not* a source name, pointing at a source elsewhere: the scan
        // goes by the entry's name, so this is no source of directory z
        let t = &srcs[r.gen_range(0..srcs.len())];
        v.push(("z/plain-link.md".to_string(), format!("../{t}"), t.clone()));
    }
    v
}

/// the tree as the scanner sees it (links followed), and the mapping back to canonical sources
fn link_view(files: &Files, links: &[(String, String, String)]) -> (Files, std::collections::BTreeMap<String, String>) {
    let mut view = files.clone();
    let mut back = std::collections::BTreeMap::new();
    for (link, _, canon) in links {
        if files.contains_key(canon) {
            view.insert(link.clone(), files[canon].clone());
            back.insert(link.clone(), canon.clone());
        } else {
            for (k, v) in files {
                if let Some(rest) = k.strip_prefix(&format!("{canon}/")) {
                    view.insert(format!("{link}/{rest}"), v.clone());
                    back.insert(format!("{link}/{rest}"), k.clone());
                }
            }
        }
    }
    (view, back)
}

fn gen_inputs(r: &mut StdRng, files: &Files, root: &Path) -> Vec<String> {
    let srcs: Vec<String> = files.keys().filter(|k| model::is_txtpp(k)).cloned().collect();
    let n = r.gen_range(1..=3);
    let mut v = vec![];
    for _ in 0..n {
        let s = &srcs[r.gen_range(0..srcs.len())];
        let o = model::output_of(s).unwrap();
        let d = DIRS[r.gen_range(0..DIRS.len())];
        let pick = r.gen_range(0..15);
        let inp = match pick {
            0 => ".".to_string(),
            1 => if d.is_empty() { ".".into() } else { d.to_string() },
            2 => if d.is_empty() { "./".into() } else { format!("./{d}") },
            3 => if d.is_empty() { "a/..".into() } else { format!("{d}/../{}", d.rsplit('/').next().unwrap()).replace("a/b/../b", "a/b/../b") },
            4 => root.join(d).to_string_lossy().to_string(),
            5 => s.clone(),
            6 => o.clone(),
            7 => format!("./{s}"),
            8 => root.join(&o).to_string_lossy().to_string(),
            9 => {
                // alias pair of the same file
                v.push(o.clone());
                s.clone()
            }
            10 => ["nosuch.txt", "a/static.txt", "z/static.txt"][r.gen_range(0..3)].to_string(),
            11 => "a/nosuch.txt.txtpp".to_string(),
            13 => {
                // the same file through a spelling with `..`
                let sd = model::dir_of(s);
                if sd.is_empty() { format!("z/../{s}") } else { format!("{sd}/../{}/{}", sd.rsplit('/').next().unwrap(), s.rsplit('/').next().unwrap()) }
            }
            12 => format!("{}{}", if d.is_empty() { String::new() } else { format!("{d}/") }, LOOKALIKES[r.gen_range(0..4)]),
            _ => o.clone(),
        };
        v.push(inp);
    }
    v
}

/// inputs as paths relative to the base (absolute ones below `root` are re-based; `d/../x` etc. normalised)
fn rebase_inputs(inputs: &[String], root: &Path) -> Option<Vec<String>> {
    let mut v = vec![];
    for i in inputs {
        let p = if Path::new(i).is_absolute() { Path::new(i).strip_prefix(root).ok()?.to_string_lossy().to_string() } else { i.clone() };
        // `a/b/../b`-style: every prefix must exist as a directory for the OS to resolve it; the generated ones do
        v.push(model::norm_path("", &p)?);
    }
    Some(v)
}

fn deps_closure(files: &Files, sel: &BTreeSet<String>) -> BTreeSet<String> {
    let w = model::World { root: "", files, trailing: true };
    let ev = model::Eval::new(&w);
    let mut all = BTreeSet::new();
    let mut todo: Vec<String> = sel.iter().cloned().collect();
    while let Some(s) = todo.pop() {
        if !all.insert(s.clone()) {
            continue;
        }
        let text = String::from_utf8_lossy(&files[&s]).to_string();
        let dir = model::dir_of(&s).to_string();
        for l in text.lines() {
            if let Some(a) = l.strip_prefix("-TXTPP#include ") {
                if let Some(p) = model::norm_path(&dir, a.trim()) {
                    if let Some(src) = ev.source_of(&p) {
                        todo.push(src);
                    }
                }
            }
        }
    }
    all
}

fn marker_counts(mlog: &Path) -> BTreeMap<String, u32> {
    let mut m = BTreeMap::new();
    for l in std::fs::read_to_string(mlog).unwrap_or_default().lines() {
        *m.entry(l.trim().to_string()).or_insert(0) += 1;
    }
    m
}

fn check(ctx: &mut Ctx, case: &Case, mlog: &Path, via_cli: bool) {
    let parent = ctx.scratch.fresh();
    let root = parent.join("proj");
    std::fs::create_dir_all(&root).unwrap();
    // inputs/files may mention the root of the run that generated them: re-home
    let gen_root = case.files.get("__root__").map(|b| String::from_utf8_lossy(b).to_string());
    let mut files = case.files.clone();
    files.remove("__root__");
    let rehome = |s: &str| -> String {
        match &gen_root {
            Some(g) => s.replace(g.as_str(), &root.to_string_lossy()),
            None => s.to_string(),
        }
    };
    let inputs: Vec<String> = case.inputs.iter().map(|i| rehome(i)).collect();
    let srcs: Vec<String> = files.keys().filter(|k| model::is_txtpp(k)).cloned().collect();
    let _ = std::fs::remove_file(mlog);
    let cj = || {
        let mut f = files.clone();
        f.insert("__root__".into(), root.to_string_lossy().as_bytes().to_vec());
        json!({"symlinks": case.symlinks.iter().map(|(a, b, c)| vec![a.clone(), b.clone(), c.clone()]).collect::<Vec<_>>(), "files": files_json(&f), "inputs": inputs, "recursive": case.recursive, "cwd_kind": case.cwd_kind, "mode": crate::run::mode_name(&case.mode), "threads": case.threads, "via_cli": via_cli, "mlog": mlog.to_string_lossy()})
    };
    // expected selection
    let rel_inputs = rebase_inputs(&inputs, &root);
    let (view, back) = link_view(&files, &case.symlinks);
    let selected: Option<BTreeSet<String>> = rel_inputs
        .as_ref()
        .and_then(|ri| selected_sources(&view, ri, case.recursive))
        .map(|s| s.into_iter().map(|p| back.get(&p).cloned().unwrap_or(p)).collect());
    let expected: Option<BTreeSet<String>> = selected.as_ref().map(|s| if matches!(case.mode, Mode::Clean) { s.clone() } else { deps_closure(&files, s) });
    // tree preparation per mode
    materialize(&root, &files, &[]);
    for (link, target, _) in &case.symlinks {
        let _ = std::os::unix::fs::symlink(target, root.join(link));
    }
    let all_sources: Vec<String> = srcs.clone();
    let full = model::evaluate(&files, &root.to_string_lossy(), true, &all_sources);
    if full.out_of_domain.is_some() || full.verdict.is_err() {
        ctx.count("generator_tree_rejected_by_model", 1);
        ctx.scratch.discard(&parent);
        return;
    }
    match case.mode {
        Mode::Clean => {
            for s in &srcs {
                std::fs::write(root.join(model::output_of(s).unwrap()), b"planted output\n").unwrap();
            }
        }
        Mode::Verify => {
            for (o, v) in &full.built.outputs {
                std::fs::write(root.join(o), v[0].as_bytes()).unwrap();
            }
        }
        _ => {}
    }
    let before = snap(&root);
    // run
    let (cwd, base): (PathBuf, PathBuf) = match case.cwd_kind {
        1 => (root.join("a"), root.clone()),
        2 => (PathBuf::from("/"), root.clone()),
        3 => (parent.clone(), PathBuf::from("proj")),
        _ => (root.clone(), root.clone()),
    };
    let cfg = RunCfg { base: base.clone(), inputs: inputs.clone(), mode: case.mode.clone(), threads: case.threads, recursive: case.recursive, trailing: true, shell: String::new() };
    let ok: bool;
    let verdict_text: String;
    if via_cli {
        let mut cfg = cfg.clone();
        cfg.base = root.clone();
        let o = run_cli(&root, &cfg.cli_args(), &CliOpts::default());
        if o.timed_out || o.code.is_none() || o.code.unwrap() > 1 {
            ctx.violation("C11:cli-abnormal-exit", o.short(), cj());
            ctx.scratch.discard(&parent);
            return;
        }
        ok = o.code == Some(0);
        verdict_text = o.short();
        ctx.count("cli_runs", 1);
    } else {
        let o = run_inproc(&cfg, Spec::Free { delay: None }, Some(&cwd), false);
        match &o.verdict {
            Verdict::Ok | Verdict::Err(_) => {}
            Verdict::Watchdog => {
                ctx.inconclusive("watchdog");
                ctx.scratch.discard(&parent);
                return;
            }
            other => {
                ctx.violation("C11:abnormal-termination", other.short(), cj());
                ctx.scratch.discard(&parent);
                return;
            }
        }
        ok = o.verdict.is_ok();
        verdict_text = o.verdict.short();
    }
    let _ = std::env::set_current_dir("/");
    ctx.evals += 1;
    let after = snap(&root);
    let counts = marker_counts(mlog);
    ctx.cover("modes", crate::run::mode_name(&case.mode));
    ctx.cover("cwd_kinds", &case.cwd_kind.to_string());
    if !case.symlinks.is_empty() {
        ctx.count("cases_with_symbolic_links", 1);
    }
    let mname = crate::run::mode_name(&case.mode);
    match &expected {
        None => {
            ctx.cover("selections", "missing-target");
            ctx.distinct.insert(crate::util::hash_str(&cj().to_string()));
            if ok {
                ctx.violation(format!("C11:{mname}:missing-target-accepted"), format!("inputs {inputs:?} name a target without source (or a missing source) but the run succeeded"), cj());
            }
        }
        Some(exp) => {
            if exp.len() < srcs.len() || inputs.len() > 1 {
                ctx.distinct.insert(crate::util::hash_str(&cj().to_string()));
            }
            ctx.cover("selections", if exp.len() == srcs.len() { "all" } else if exp.is_empty() { "none" } else { "proper-subset" });
            if !ok {
                ctx.violation(format!("C11:{mname}:valid-selection-failed:cwd{}", case.cwd_kind), format!("inputs {inputs:?} (recursive {}) select {:?} but the run failed: {verdict_text}", case.recursive, exp), cj());
            } else {
                // observed processed set
                let mut observed = BTreeSet::new();
                // (empty sources carry no marker command: verify cannot observe them, they are
                // taken as expected there; build and clean observe them through their output)
                let has_marker = |s: &String| files[s].windows(14).any(|w| w == b"TXTPP#run echo");
                for s in &srcs {
                    let o = model::output_of(s).unwrap();
                    let processed = match case.mode {
                        Mode::Build | Mode::InMemoryBuild => after.files.contains_key(&o),
                        Mode::Clean => !after.files.contains_key(&o),
                        Mode::Verify => {
                            if has_marker(s) {
                                counts.get(&marker_id(s)).copied().unwrap_or(0) > 0
                            } else {
                                exp.contains(s)
                            }
                        }
                    };
                    if processed {
                        observed.insert(s.clone());
                    }
                }
                if &observed != exp {
                    let extra: Vec<&String> = observed.difference(exp).collect();
                    let missing: Vec<&String> = exp.difference(&observed).collect();
                    ctx.violation(
                        format!("C11:{mname}:{}", if !extra.is_empty() { "processed-unrequested" } else { "requested-not-processed" }),
                        format!("inputs {inputs:?} recursive={} cwd_kind={}: processed set observed differs: unexpectedly processed {extra:?}, not processed {missing:?}", case.recursive, case.cwd_kind),
                        cj(),
                    );
                }
                if !matches!(case.mode, Mode::Clean) {
                    for s in &srcs {
                        let got = counts.get(&marker_id(s)).copied().unwrap_or(0);
                        let want = if exp.contains(s) && has_marker(s) { 1 } else { 0 };
                        if got != want && observed == *exp {
                            ctx.violation(format!("C11:{mname}:marker-count"), format!("source {s} executed its marker command {got} times (expected {want}); inputs {inputs:?}"), cj());
                        }
                    }
                }
                // nothing but outputs of the processed sources may change (look-alikes such as `.txtpp` included)
                for (p, e) in &before.files {
                    let is_output_of_expected = exp.iter().any(|s| model::output_of(s).as_deref() == Some(p.as_str()));
                    if !is_output_of_expected && after.files.get(p).map(|x| &x.bytes) != Some(&e.bytes) {
                        ctx.violation(format!("C11:{mname}:touched-non-output"), format!("{p} existed before the run, is not the output of a processed source, and was {}", if after.files.contains_key(p) { "modified" } else { "deleted" }), cj());
                    }
                }
                if matches!(case.mode, Mode::Build | Mode::InMemoryBuild) {
                    // names and bytes
                    for s in exp {
                        let o = model::output_of(s).unwrap();
                        if let (Some(e), Some(w)) = (after.files.get(&o), full.built.outputs.get(&o)) {
                            if !w.iter().any(|x| x.as_bytes() == &e.bytes[..]) {
                                ctx.violation("C11:output-bytes", format!("{o}: got {} expected {}", show(&e.bytes), show(w[0].as_bytes())), cj());
                            }
                        }
                    }
                    for p in after.files.keys() {
                        if !before.files.contains_key(p) && !exp.iter().any(|s| model::output_of(s).as_deref() == Some(p.as_str())) {
                            ctx.violation("C11:output-at-wrong-path", format!("file {p} appeared but is not the output of a processed source"), cj());
                        }
                    }
                }
            }
        }
    }
    ctx.scratch.discard(&parent);
}

/// Two dedicated layouts. (1) `page.html.txtpp` and `page.txtpp.html` side by side: two distinct
/// sources (they happen to share an output name, so the output's bytes are not judged); each is
/// processed exactly once, whether reached by the directory or by naming both. (2) A directory input
/// that lies outside the base directory (`txtpp ../docs` from `site/`, or an absolute path): its
/// sources are processed like any other directory's.
fn special_layouts(ctx: &mut Ctx, r: &mut StdRng, mlog: &Path) {
    let parent = ctx.scratch.fresh();
    let base = parent.join("site");
    let mut files = Files::new();
    let mark = |id: &str| format!("-TXTPP#run echo {id} >> {}\nbody of {id}\n", mlog.display());
    files.insert("site/page.html.txtpp".into(), mark("pair_suffix").into_bytes());
    files.insert("site/page.txtpp.html".into(), mark("pair_middle").into_bytes());
    files.insert("site/other.txt.txtpp".into(), mark("site_other").into_bytes());
    files.insert("docs/guide.md.txtpp".into(), mark("docs_guide").into_bytes());
    files.insert("docs/api/ref.txtpp".into(), mark("docs_api_ref").into_bytes());
    materialize(&parent, &files, &[]);
    let _ = std::fs::remove_file(mlog);
    let layout = r.gen_range(0..5);
    let recursive = r.gen_bool(0.5);
    let (inputs, expected): (Vec<String>, Vec<&str>) = match layout {
        0 => (vec![".".into()], vec!["pair_suffix", "pair_middle", "site_other"]),
        1 => (vec!["page.html.txtpp".into(), "page.txtpp.html".into()], vec!["pair_suffix", "pair_middle"]),
        // an empty list of inputs (library API) names nothing: nothing is processed
        4 => (vec![], vec![]),
        2 => (vec!["../docs".into(), "other.txt".into()], if recursive { vec!["docs_guide", "docs_api_ref", "site_other"] } else { vec!["docs_guide", "site_other"] }),
        _ => (vec![parent.join("docs").display().to_string()], if recursive { vec!["docs_guide", "docs_api_ref"] } else { vec!["docs_guide"] }),
    };
    let threads = [1usize, 2, 4][r.gen_range(0..3)];
    let mode = if r.gen_bool(0.7) { Mode::Build } else { Mode::InMemoryBuild };
    let cfg = RunCfg { base: base.clone(), inputs: inputs.clone(), mode, threads, recursive, trailing: true, shell: String::new() };
    let via_cli = r.gen_bool(0.25) && layout != 4; // (the CLI cannot express an empty list: it substitutes `.`)
    let ok = if via_cli {
        let o = run_cli(&base, &cfg.cli_args(), &CliOpts::default());
        ctx.count("cli_runs", 1);
        !o.timed_out && o.code == Some(0)
    } else {
        let o = run_inproc(&cfg, Spec::Free { delay: None }, Some(&base), false);
        let _ = std::env::set_current_dir("/");
        if matches!(o.verdict, Verdict::Watchdog) {
            ctx.inconclusive("watchdog (special layouts)");
            ctx.scratch.discard(&parent);
            return;
        }
        o.verdict.is_ok()
    };
    ctx.evals += 1;
    ctx.count("special_layout_cases", 1);
    let cj = json!({"kind": "special-layouts", "layout": layout, "inputs": inputs, "recursive": recursive, "threads": threads, "via_cli": via_cli});
    let counts = marker_counts(mlog);
    if !ok {
        ctx.violation("C11:build:valid-selection-failed:special", format!("inputs {inputs:?} (base site/, recursive {recursive}) failed"), cj.clone());
    } else {
        for id in ["pair_suffix", "pair_middle", "site_other", "docs_guide", "docs_api_ref"] {
            let got = counts.get(id).copied().unwrap_or(0);
            let want = if expected.contains(&id) { 1 } else { 0 };
            if got != want {
                ctx.violation(
                    format!("C11:build:{}", if got < want { "requested-not-processed" } else if want == 0 { "processed-unrequested" } else { "marker-count" }),
                    format!("inputs {inputs:?} (base site/, recursive {recursive}): the source with marker {id} was processed {got} time(s), expected {want}"),
                    cj.clone(),
                );
            }
        }
    }
    ctx.distinct.insert(crate::util::hash_str(&cj.to_string()));
    ctx.scratch.discard(&parent);
}

fn run(ctx: &mut Ctx) {
    let mut r = StdRng::seed_from_u64(ctx.shard_seed());
    let logs = ctx.scratch.root.join("logs");
    let _ = std::fs::create_dir_all(&logs);
    let mlog = logs.join("c11.log");
    let n = ctx.tier.pick(600, 20_000);
    for i in 0..n {
        if !ctx.time_left() || ctx.violations.len() > 25 {
            break;
        }
        let files = gen_tree(&mut r, &mlog);
        // inputs mention absolute paths below a root that does not exist yet: use a marker root and re-home
        let fake_root = PathBuf::from("/GENROOT");
        let mut f = files.clone();
        f.insert("__root__".into(), b"/GENROOT".to_vec());
        let mut inputs = gen_inputs(&mut r, &files, &fake_root);
        let symlinks = gen_links(&mut r, &files);
        for (link, _, _) in &symlinks {
            if r.gen_bool(0.3) && !link.ends_with("plain-link.md") {
                inputs.push(link.clone());
            }
        }
        let case = Case {
            symlinks,
            files: f,
            inputs,
            recursive: r.gen_bool(0.5),
            cwd_kind: [0, 0, 1, 2, 3][r.gen_range(0..5)],
            mode: [Mode::Build, Mode::Build, Mode::InMemoryBuild, Mode::Clean, Mode::Verify][r.gen_range(0..5)].clone(),
            threads: [1, 2, 4][r.gen_range(0..3)],
        };
        let via_cli = i % 12 == 11;
        check(ctx, &case, &mlog, via_cli);
        if i % 12 == 5 {
            special_layouts(ctx, &mut r, &mlog);
        }
        if i % 50 == 3 {
            // sources whose names are not valid UTF-8, reached by directory scans
            let (findings, cj) = crate::props::rawnames::scenario(ctx, &mut r);
            for f in findings.iter().filter(|f| f.class == "naming") {
                ctx.violation(format!("C11:non-utf8-name:{}", f.mode), f.msg.clone(), cj.clone());
            }
            if findings.iter().any(|f| f.class == "touched" && f.msg.contains("was created")) {
                let f = findings.iter().find(|f| f.class == "touched" && f.msg.contains("was created")).unwrap();
                ctx.violation("C11:output-at-wrong-path", f.msg.clone(), cj.clone());
            }
            ctx.distinct.insert(crate::util::hash_str(&format!("raw{i}{}", cj)));
        }
        if i == 0 {
            ctx.sample(|| json!({"tree": files.keys().cloned().collect::<Vec<_>>(), "inputs": case.inputs, "recursive": case.recursive, "cwd_kind": case.cwd_kind, "mode": crate::run::mode_name(&case.mode)}));
        }
    }
}

fn replay(ctx: &mut Ctx, v: &Value) {
    if v["kind"].as_str() == Some("special-layouts") {
        let mut r = StdRng::seed_from_u64(3);
        let mlog = PathBuf::from("/dev/shm/c11-replay-special.log");
        for _ in 0..40 {
            special_layouts(ctx, &mut r, &mlog);
        }
        return;
    }
    if v["kind"].as_str() == Some("raw-names") {
        let mut r = StdRng::seed_from_u64(3);
        for _ in 0..10 {
            let (findings, cj) = crate::props::rawnames::scenario(ctx, &mut r);
            for f in findings.iter() {
                println!("  [{}:{}] {}", f.class, f.mode, f.msg);
                if f.class == "naming" {
                    ctx.violation(format!("C11:non-utf8-name:{}", f.mode), f.msg.clone(), cj.clone());
                } else if f.msg.contains("was created") {
                    ctx.violation("C11:output-at-wrong-path", f.msg.clone(), cj.clone());
                }
            }
        }
        return;
    }
    let case = Case {
        symlinks: v["symlinks"].as_array().map(|a| a.iter().filter_map(|x| Some((x.get(0)?.as_str()?.to_string(), x.get(1)?.as_str()?.to_string(), x.get(2)?.as_str()?.to_string()))).collect()).unwrap_or_default(),
        files: files_from_json(&v["files"]),
        inputs: v["inputs"].as_array().map(|a| a.iter().filter_map(|x| x.as_str().map(String::from)).collect()).unwrap_or_default(),
        recursive: v["recursive"].as_bool().unwrap_or(false),
        cwd_kind: v["cwd_kind"].as_u64().unwrap_or(0) as u8,
        mode: crate::run::mode_from(v["mode"].as_str().unwrap_or("build")),
        threads: v["threads"].as_u64().unwrap_or(2) as usize,
    };
    let mlog = PathBuf::from(v["mlog"].as_str().unwrap_or("/dev/shm/c11-replay.log"));
    if let Some(p) = mlog.parent() {
        let _ = std::fs::create_dir_all(p);
    }
    check(ctx, &case, &mlog, v["via_cli"].as_bool().unwrap_or(false));
}
