//! Shared by the model-based drivers: a serialisable project case, the in-process runner around
//! it, and the judge comparing the real tree with the reference model.

use crate::fw::Ctx;
use crate::model::{self, Expect};
use crate::run::{mode_from, mode_name, run_inproc, Outcome, RunCfg, Verdict};
use crate::sched::{FixedOrder, Spec, Strategy};
use crate::util::{diff, files_from_json, files_json, materialize, show, snap, Files, Snap};
use serde_json::{json, Value};
use std::path::{Path, PathBuf};
use txtpp::Mode;

#[derive(Debug, Clone)]
pub struct ProjectCase {
    pub files: Files,
    pub dirs: Vec<String>,
    /// leftovers planted at generated paths before the run
    pub prestate: Files,
    pub inputs: Vec<String>,
    /// sources the model evaluates (None = every source of the project)
    pub requested: Option<Vec<String>>,
    pub mode: Mode,
    pub threads: usize,
    pub recursive: bool,
    pub trailing: bool,
    pub spec: Spec,
}

impl ProjectCase {
    pub fn simple(files: Files) -> Self {
        Self { files, dirs: vec![], prestate: Files::new(), inputs: vec![".".into()], requested: None, mode: Mode::Build, threads: 2, recursive: true, trailing: true, spec: Spec::Free { delay: None } }
    }
    pub fn to_json(&self) -> Value {
        json!({
            "files": files_json(&self.files), "dirs": self.dirs, "prestate": files_json(&self.prestate), "inputs": self.inputs,
            "requested": self.requested, "mode": mode_name(&self.mode), "threads": self.threads, "recursive": self.recursive,
            "trailing": self.trailing, "schedule": spec_json(&self.spec),
        })
    }
    pub fn from_json(v: &Value) -> Self {
        Self {
            files: files_from_json(&v["files"]),
            dirs: v["dirs"].as_array().map(|a| a.iter().filter_map(|x| x.as_str().map(String::from)).collect()).unwrap_or_default(),
            prestate: files_from_json(&v["prestate"]),
            inputs: v["inputs"].as_array().map(|a| a.iter().filter_map(|x| x.as_str().map(String::from)).collect()).unwrap_or_else(|| vec![".".into()]),
            requested: v["requested"].as_array().map(|a| a.iter().filter_map(|x| x.as_str().map(String::from)).collect()),
            mode: mode_from(v["mode"].as_str().unwrap_or("build")),
            threads: v["threads"].as_u64().unwrap_or(2) as usize,
            recursive: v["recursive"].as_bool().unwrap_or(true),
            trailing: v["trailing"].as_bool().unwrap_or(true),
            spec: spec_from_json(&v["schedule"]),
        }
    }
    pub fn cfg(&self, root: &Path) -> RunCfg {
        RunCfg { base: root.to_path_buf(), inputs: self.inputs.clone(), mode: self.mode.clone(), threads: self.threads, recursive: self.recursive, trailing: self.trailing, shell: String::new() }
    }
    pub fn requested(&self) -> Vec<String> {
        self.requested.clone().unwrap_or_else(|| model::sources(&self.files))
    }
    pub fn hash(&self) -> u64 {
        crate::util::hash_files(&self.files) ^ crate::util::hash_files(&self.prestate).rotate_left(17) ^ crate::util::hash_str(&format!("{:?}{:?}{}{}{}", self.inputs, mode_name(&self.mode), self.threads, self.recursive, self.trailing))
    }
}

pub fn spec_json(s: &Spec) -> Value {
    match s {
        Spec::Natural { delay } => json!({"engine": "natural", "delay": delay.map(|d| vec![d.0, d.1])}),
        Spec::Free { delay } => json!({"engine": "free", "delay": delay.map(|d| vec![d.0, d.1])}),
        Spec::Controlled { strategy, early_poll_at, eager_recv } => {
            let st = match strategy {
                Strategy::Dfs(p) => json!({"dfs": p.iter().map(|(c, n)| vec![*c, *n]).collect::<Vec<_>>()}),
                Strategy::Random(s) => json!({ "random": s }),
                Strategy::Fixed(f) => json!({"fixed": format!("{f:?}")}),
            };
            json!({"engine": "controlled", "strategy": st, "early_poll_at": early_poll_at, "eager_recv": eager_recv})
        }
    }
}

pub fn spec_from_json(v: &Value) -> Spec {
    let delay = v["delay"].as_array().and_then(|a| Some((a.first()?.as_u64()?, a.get(1)?.as_u64()?)));
    match v["engine"].as_str() {
        Some("natural") => Spec::Natural { delay },
        Some("controlled") => {
            let st = &v["strategy"];
            let strategy = if let Some(p) = st["dfs"].as_array() {
                Strategy::Dfs(p.iter().filter_map(|x| Some((x.get(0)?.as_u64()? as u32, x.get(1)?.as_u64()? as u32))).collect())
            } else if let Some(s) = st["random"].as_u64() {
                Strategy::Random(s)
            } else {
                Strategy::Fixed(match st["fixed"].as_str() {
                    Some("RecvFirstFifo") => FixedOrder::RecvFirstFifo,
                    Some("DepsLast") => FixedOrder::DepsLast,
                    _ => FixedOrder::RunFirstLifo,
                })
            };
            Spec::Controlled { strategy, early_poll_at: v["early_poll_at"].as_u64().map(|x| x as u32), eager_recv: v["eager_recv"].as_bool().unwrap_or(false) }
        }
        _ => Spec::Free { delay },
    }
}

pub struct ProjectResult {
    pub root: PathBuf,
    pub outcome: Outcome,
    pub before: Snap,
    pub after: Snap,
    pub expect: Expect,
}

/// Materialise the case in a fresh scratch directory, run txtpp in-process, snapshot, evaluate the
/// model. The directory is left in place (callers doing follow-up runs use it) and is reclaimed
/// by `discard`.
pub fn run_project_keep(ctx: &mut Ctx, case: &ProjectCase, log_events: bool) -> ProjectResult {
    let root = ctx.scratch.fresh();
    run_project_at(ctx, case, &root, log_events)
}

pub fn run_project_at(ctx: &mut Ctx, case: &ProjectCase, root: &Path, log_events: bool) -> ProjectResult {
    materialize(root, &case.files, &case.dirs);
    materialize(root, &case.prestate, &[]);
    let before = snap(root);
    let cfg = case.cfg(root);
    let outcome = run_inproc(&cfg, case.spec.clone(), Some(root), log_events);
    let after = snap(root);
    let expect = model::evaluate(&case.files, &root.to_string_lossy(), case.trailing, &case.requested());
    ctx.evals += 1;
    ProjectResult { root: root.to_path_buf(), outcome, before, after, expect }
}

pub fn run_project(ctx: &mut Ctx, case: &ProjectCase) -> ProjectResult {
    let r = run_project_keep(ctx, case, false);
    ctx.scratch.discard(&r.root);
    r
}

/// Verdict-level problems common to every property: never a matter of the model
pub fn liveness_problems(o: &Outcome) -> Vec<(String, String)> {
    let mut v = vec![];
    match &o.verdict {
        Verdict::Deadlock => v.push(("deadlock".to_string(), "logical deadlock: nothing in flight, every result received, done != total — the coordinator can never leave its loop".to_string())),
        Verdict::HangInDrop => v.push(("deadlock".to_string(), "Txtpp::run can never return (state unchanged for 10 s, nothing left that could change it): either the remaining workers are blocked inside the result-channel send while the runtime's Drop joins the thread pool (after an error result), or every task has ended and every result was received with done == total and the coordinator still does not leave its loop / finish Drop".to_string())),
        Verdict::Livelock => v.push(("deadlock".to_string(), "the same directory was queued for scanning more than 64 times in one run: the run rescans without end and never returns".to_string())),
        Verdict::StuckTask => v.push(("deadlock".to_string(), "a worker task showed no progress for 20 s (all commands of the workload finish in milliseconds): the worker is blocked, its result never arrives and the coordinator waits forever".to_string())),
        Verdict::MainPanic(m) => v.push(("panic-main".to_string(), format!("the thread calling Txtpp::run panicked: {m}"))),
        _ => {}
    }
    if o.late_tasks > 0 {
        v.push(("panic-worker".to_string(), format!("Txtpp::run returned while {} worker task(s) were still running (the runtime's Drop must join the pool); panics seen afterwards: {:?}", o.late_tasks, o.panics)));
    }
    if o.trace.panicked_tasks > 0 || (!o.panics.is_empty() && !matches!(o.verdict, Verdict::MainPanic(_))) {
        v.push(("panic-worker".to_string(), format!("panic in a txtpp thread: {:?}", o.panics)));
    }
    v
}

/// Compare the build result with the reference model. Returns (signature suffix, message).
pub fn judge_project(case: &ProjectCase, r: &ProjectResult) -> Vec<(String, String)> {
    let mut v = liveness_problems(&r.outcome);
    if !v.is_empty() || matches!(r.outcome.verdict, Verdict::Watchdog) {
        return v;
    }
    if r.expect.out_of_domain.is_some() {
        return v;
    }
    let ok = r.outcome.verdict.is_ok();
    if ok != r.expect.verdict.is_ok() {
        v.push((
            if ok { "false-success".to_string() } else { "false-failure".to_string() },
            format!("verdict: txtpp {} but the documented semantics prescribe {:?}", r.outcome.verdict.short(), r.expect.verdict),
        ));
        return v;
    }
    if !ok || !matches!(case.mode, Mode::Build | Mode::InMemoryBuild) {
        return v;
    }
    let now = r.after.bytes();
    for (p, acc) in &r.expect.built.outputs {
        match now.get(p) {
            Some(b) => {
                if !acc.iter().any(|a| a.as_bytes() == &b[..]) {
                    v.push(("output-bytes".to_string(), format!("output {p}: got {} expected {}", show(b), acc.iter().map(|a| show(a.as_bytes())).collect::<Vec<_>>().join(" or "))));
                }
            }
            None => v.push(("output-missing".to_string(), format!("output {p} missing after a successful build"))),
        }
    }
    for (p, t) in &r.expect.built.temps {
        match now.get(p) {
            Some(b) => {
                if t.as_bytes() != &b[..] {
                    v.push(("temp-bytes".to_string(), format!("temp file {p}: got {} expected {}", show(b), show(t.as_bytes()))));
                }
            }
            None => v.push(("temp-missing".to_string(), format!("temp file {p} missing after a successful build"))),
        }
    }
    let d = diff(&r.before, &r.after);
    for p in d.created.iter().chain(d.content.iter()).chain(d.deleted.iter()) {
        if !r.expect.built.outputs.contains_key(p) && !r.expect.built.temps.contains_key(p) {
            v.push(("unexpected-write".to_string(), format!("path {p} was created/modified/deleted but is neither an output nor a temp target of the processed sources")));
        }
    }
    v
}
