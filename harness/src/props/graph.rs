//! Shared engine of the scheduling properties (C02, C03, C05 and the schedule dimension of C04):
//! dependency-graph projects executed in-process under controlled / free schedules, judged by
//! byte comparison with the sequential reference model, trace monitors (T1, T3), marker counters
//! and the observation log.

use crate::fw::Ctx;
use crate::gen::{graph_files, graph_name, EdgeKind, Graph};
use crate::model;
use crate::props::common::{liveness_problems, spec_from_json, spec_json};
use crate::run::{mode_from, mode_name, run_inproc, Outcome, RunCfg, Verdict};
use crate::sched::{done_counts, trace_hash, Spec, Strategy};
use crate::util::{materialize, show, snap, Files};
use serde_json::{json, Value};
use std::collections::BTreeMap;
use txtpp::Mode;

#[derive(Debug, Clone)]
pub struct GraphCase {
    pub n: usize,
    pub mask: u64,
    pub kinds: u64,
    /// requested vertices
    pub requested: Vec<usize>,
    /// 0 output names, 1 source names, 2 ./ aliases, 3 duplicates by both names, 4 directory ".", 5 directory + files
    pub input_style: u8,
    pub threads: usize,
    pub stale: bool,
    pub dup_edges: bool,
    pub markers: bool,
    pub obs: bool,
    pub mode: Mode,
    /// odd-numbered files live in sub-directory `d/` (ScanDir tasks with recursion)
    pub subdirs: bool,
    /// a fault in this vertex (C04): Some(v)
    pub fail_at: Option<usize>,
    /// 0 failing command, 1 missing include, 2 unused tag, 3 temp target in a missing directory,
    /// 4 include of a non-UTF-8 file, 5 output path is a directory, 6 tampered output (verify, after a
    /// correct build), 7 output deleted (verify), 8 a line of the source itself is not valid UTF-8
    pub fail_kind: u8,
    /// AfterCat edges emit only the `after` line (no command reading the dependency)
    pub after_only: bool,
    /// f0 removes the (empty) directory `gone/` with a command: its queued scan may then fail.
    /// Only termination is judged (whether the scan fails depends on the schedule).
    pub vanish: bool,
    /// marker commands take this long (natural flavour: a coordinator that stops waiting too early)
    pub slow_ms: u32,
    /// odd files use the `stem.v2.txtpp.txt` source shape (output `stem.v2.txt`): dependency
    /// detection has to map the dotted output name back to that source
    pub shaped: bool,
    /// every file also runs `cat big.txt` (100 KB, more than a pipe buffer) after its dependency directives
    pub big: bool,
    /// file names contain a blank (`f1 s.txt`): include / after arguments with inner whitespace;
    /// commands quote the path
    pub spaced: bool,
    /// sources end with their last directive (no tail text line): the directive pending at end of
    /// file is the last dependency edge (or the marker command)
    pub no_tail: bool,
    /// the stale file at every output path is the *fresh* content followed by extra lines (a
    /// comparison that only looks at a prefix would call it up to date)
    pub stale_ext: bool,
    /// every file lives in `store/`; the requested directory `proj/` holds only symbolic links to
    /// the sources (a linked source counts as its target: processed once, output beside the target)
    pub linked: bool,
    /// sources without out-edges are empty files (their output is the empty file)
    pub empty_leaves: bool,
    /// the base directory is `proj/`; odd files live in the sibling directory `shared/`, i.e.
    /// outside the base, and are referred to as `../shared/fN.txt` (named inputs only)
    pub outside: bool,
    /// the stale file at every output path is a symbolic link to `old/<name>` (an old output kept
    /// elsewhere): build writes through the link, dependency detection must still find the source
    /// beside the link
    pub stale_link: bool,
    /// every directive line uses the prefix `-`, and a text line follows each command (it is that
    /// text line which ends the command's block; the next `-TXTPP#include` must not be swallowed)
    pub same_prefix: bool,
    /// history inside this process, on the same directory: before the judged run, an earlier
    /// revision of the project (edge mask, generation-0 tokens) is built, in which the vertices of
    /// the second bitmask have no `.txtpp` source yet but are hand-written plain files. Anything the
    /// library remembers across `Txtpp::run` calls (lookups, file contents) shows in the judged run.
    pub prior: Option<(u64, u64)>,
}

impl GraphCase {
    pub fn new(n: usize, mask: u64) -> Self {
        Self { n, mask, kinds: 0, requested: (0..n).collect(), input_style: 0, threads: 2, stale: true, dup_edges: false, markers: true, obs: false, mode: Mode::Build, subdirs: false, fail_at: None, fail_kind: 0, after_only: false, vanish: false, slow_ms: 0, shaped: false, big: false, spaced: false, no_tail: false, stale_ext: false, linked: false, empty_leaves: false, outside: false, stale_link: false, same_prefix: false, prior: None }
    }
    pub fn graph(&self) -> Graph {
        Graph::from_mask(self.n, self.mask, self.kinds)
    }
    pub fn to_json(&self, spec: &Spec) -> Value {
        json!({"kind": "graph", "n": self.n, "mask": self.mask, "kinds": self.kinds, "requested": self.requested, "input_style": self.input_style, "threads": self.threads,
            "stale": self.stale, "dup_edges": self.dup_edges, "markers": self.markers, "obs": self.obs, "mode": mode_name(&self.mode), "subdirs": self.subdirs, "fail_at": self.fail_at, "fail_kind": self.fail_kind, "after_only": self.after_only, "vanish": self.vanish, "slow_ms": self.slow_ms, "shaped": self.shaped, "big": self.big, "spaced": self.spaced, "no_tail": self.no_tail, "stale_ext": self.stale_ext, "linked": self.linked, "empty_leaves": self.empty_leaves, "outside": self.outside, "stale_link": self.stale_link, "same_prefix": self.same_prefix, "prior": self.prior.map(|(a, b)| vec![a, b]),
            "edges": self.graph().edges.iter().enumerate().map(|(i, e)| format!("f{i} -> {:?}", e.iter().map(|(j, k)| format!("f{j}{}", if *k == EdgeKind::AfterCat { "(after+cat)" } else { "" })).collect::<Vec<_>>())).collect::<Vec<_>>(),
            "schedule": spec_json(spec)})
    }
    pub fn from_json(v: &Value) -> (Self, Spec) {
        (
            Self {
                n: v["n"].as_u64().unwrap_or(1) as usize,
                mask: v["mask"].as_u64().unwrap_or(0),
                kinds: v["kinds"].as_u64().unwrap_or(0),
                requested: v["requested"].as_array().map(|a| a.iter().filter_map(|x| x.as_u64().map(|y| y as usize)).collect()).unwrap_or_default(),
                input_style: v["input_style"].as_u64().unwrap_or(0) as u8,
                threads: v["threads"].as_u64().unwrap_or(2) as usize,
                stale: v["stale"].as_bool().unwrap_or(false),
                dup_edges: v["dup_edges"].as_bool().unwrap_or(false),
                markers: v["markers"].as_bool().unwrap_or(false),
                obs: v["obs"].as_bool().unwrap_or(false),
                mode: mode_from(v["mode"].as_str().unwrap_or("build")),
                subdirs: v["subdirs"].as_bool().unwrap_or(false),
                fail_at: v["fail_at"].as_u64().map(|x| x as usize),
                fail_kind: v["fail_kind"].as_u64().unwrap_or(0) as u8,
                after_only: v["after_only"].as_bool().unwrap_or(false),
                vanish: v["vanish"].as_bool().unwrap_or(false),
                slow_ms: v["slow_ms"].as_u64().unwrap_or(0) as u32,
                shaped: v["shaped"].as_bool().unwrap_or(false),
                big: v["big"].as_bool().unwrap_or(false),
                spaced: v["spaced"].as_bool().unwrap_or(false),
                no_tail: v["no_tail"].as_bool().unwrap_or(false),
                stale_ext: v["stale_ext"].as_bool().unwrap_or(false),
                linked: v["linked"].as_bool().unwrap_or(false),
                empty_leaves: v["empty_leaves"].as_bool().unwrap_or(false),
                outside: v["outside"].as_bool().unwrap_or(false),
                stale_link: v["stale_link"].as_bool().unwrap_or(false),
                same_prefix: v["same_prefix"].as_bool().unwrap_or(false),
                prior: v["prior"].as_array().and_then(|a| Some((a.first()?.as_u64()?, a.get(1)?.as_u64()?))),
            },
            spec_from_json(&v["schedule"]),
        )
    }
    pub fn hash(&self) -> u64 {
        crate::util::hash_str(&format!("{:?}", (self.n, self.mask, self.kinds, &self.requested, self.input_style, self.threads, self.stale, self.dup_edges, self.subdirs, mode_name(&self.mode), (self.fail_at, self.fail_kind, self.after_only, self.vanish, self.shaped, self.big), (self.spaced, self.no_tail, self.stale_ext, self.linked, self.empty_leaves, self.prior, self.outside, self.stale_link, self.same_prefix))))
    }
    fn dir_of(&self, i: usize) -> &'static str {
        if self.outside {
            if i % 2 == 1 {
                "shared"
            } else {
                "proj"
            }
        } else if self.linked {
            "store"
        } else if self.subdirs && i % 2 == 1 {
            "d"
        } else {
            ""
        }
    }
    fn file_name(&self, i: usize) -> String {
        let sp = if self.spaced { " s" } else { "" };
        if self.shaped && i % 2 == 1 {
            format!("f{i}{sp}.v2.txt")
        } else if self.spaced {
            format!("f{i}{sp}.txt")
        } else {
            graph_name(i)
        }
    }
    /// output path of vertex i
    fn path_of(&self, i: usize) -> String {
        let d = self.dir_of(i);
        if d.is_empty() {
            self.file_name(i)
        } else {
            format!("{d}/{}", self.file_name(i))
        }
    }
    /// source path of vertex i
    fn src_of(&self, i: usize) -> String {
        let d = self.dir_of(i);
        let sp = if self.spaced { " s" } else { "" };
        let name = if self.shaped && i % 2 == 1 { format!("f{i}{sp}.v2.txtpp.txt") } else { format!("{}.txtpp", self.file_name(i)) };
        if d.is_empty() {
            name
        } else {
            format!("{d}/{name}")
        }
    }
}

/// POSIX cksum of bytes: "<crc> <len>"
pub fn cksum(data: &[u8]) -> String {
    let mut crc: u32 = 0;
    let step = |crc: &mut u32, b: u8| {
        *crc ^= (b as u32) << 24;
        for _ in 0..8 {
            *crc = if *crc & 0x8000_0000 != 0 { (*crc << 1) ^ 0x04C1_1DB7 } else { *crc << 1 };
        }
    };
    for b in data {
        step(&mut crc, *b);
    }
    let mut n = data.len();
    while n > 0 {
        step(&mut crc, (n & 0xff) as u8);
        n >>= 8;
    }
    format!("{} {}", !crc, data.len())
}

pub struct GraphRun {
    pub outcome: Outcome,
    /// (class, message)
    pub problems: Vec<(String, String)>,
    pub trace_hash: u64,
    pub expected_ok: bool,
}

fn build_files(case: &GraphCase, generation: u32, marker_log: Option<&str>, obs_log: Option<&str>) -> Files {
    let g = case.graph();
    let flat = graph_files(&g, generation, 0xabc0 + case.mask, if case.markers { marker_log } else { None }, if case.obs { obs_log } else { None }, case.dup_edges);
    if !case.subdirs && case.fail_at.is_none() && !case.after_only && !case.vanish && case.slow_ms == 0 && !case.shaped && !case.big && !case.spaced && !case.no_tail && !case.linked && !case.empty_leaves && !case.outside && !case.same_prefix {
        return flat;
    }
    // re-home odd files into d/ and rewrite references accordingly; inject the failing command
    let mut files = Files::new();
    for i in 0..case.n {
        if case.empty_leaves && !case.markers && g.edges[i].is_empty() && case.fail_at != Some(i) {
            files.insert(case.src_of(i), vec![]);
            continue;
        }
        let src = String::from_utf8(flat[&format!("{}.txtpp", graph_name(i))].clone()).unwrap();
        let mut out = String::new();
        for line in src.lines() {
            let mut l = line.to_string();
            if case.no_tail && l.contains(":tail:") {
                continue;
            }
            if case.subdirs || case.shaped || case.spaced || case.outside {
                for j in 0..case.n {
                    let name = graph_name(j);
                    let rel = crate::gen::rel(case.dir_of(i), &case.path_of(j));
                    if rel != name {
                        for pat in [format!("include {name}"), format!("include ./{name}"), format!("after {name}"), format!("cat {name}"), format!("< {name})")] {
                            if l.contains(&pat) {
                                let quoted = case.spaced && (pat.starts_with("cat ") || pat.starts_with("< "));
                                let with = if quoted { format!("'{rel}'") } else { rel.clone() };
                                l = l.replace(&pat, &pat.replace(&name, &with));
                            }
                        }
                    }
                }
            }
            if case.after_only && l.starts_with("#TXTPP#run cat ") {
                continue;
            }
            if case.slow_ms > 0 && l.starts_with("//TXTPP#run echo ") {
                l = l.replacen("//TXTPP#run echo ", &format!("//TXTPP#run sleep {}.{:03}; echo ", case.slow_ms / 1000, case.slow_ms % 1000), 1);
            }
            if case.same_prefix {
                let is_cmd = l.starts_with("#TXTPP#run") || l.starts_with("//TXTPP#run");
                if let Some(rest) = l.strip_prefix("#TXTPP#").or_else(|| l.strip_prefix("//TXTPP#")) {
                    l = format!("-TXTPP#{rest}");
                }
                out.push_str(&l);
                out.push('\n');
                if is_cmd {
                    out.push_str(&format!("text that ends the command block of {}\n", graph_name(i)));
                }
                continue;
            }
            out.push_str(&l);
            out.push('\n');
        }
        if case.fail_at == Some(i) {
            let idx = out.rfind(&format!("{}:tail:", graph_name(i))).unwrap_or(out.len());
            let line = match case.fail_kind {
                0 => "<!--TXTPP#run exit 7\n",
                1 => "<!--TXTPP#include missing-file.txt\n",
                2 => "<!--TXTPP#tag NEVERUSED\n",
                3 => "<!--TXTPP#temp nodir/x.tmp\n<!--body\n",
                4 => "<!--TXTPP#include bad-utf8.bin\n",
                _ => "",
            };
            out.insert_str(idx, line);
        }
        if case.big {
            let idx = out.rfind(&format!("{}:tail:", graph_name(i))).unwrap_or(out.len());
            out.insert_str(idx, &format!("<!--TXTPP#run cat {}big.txt\n", if case.dir_of(i).is_empty() { "" } else { "../" }));
        }
        if case.vanish && i == 0 {
            let idx = out.rfind(&format!("{}:tail:", graph_name(i))).unwrap_or(out.len());
            out.insert_str(idx, "<!--TXTPP#run rm -rf gone\n");
        }
        files.insert(case.src_of(i), out.into_bytes());
    }
    if case.big {
        files.insert("big.txt".into(), (0..2500).map(|i| format!("big line {i:05} ........................\n")).collect::<String>().into_bytes());
    }
    if case.fail_at.is_some() && case.fail_kind == 4 {
        for d in ["", "d/"] {
            files.insert(format!("{d}bad-utf8.bin"), vec![b'o', b'k', 0xff, 0xfe, b'\n']);
        }
    }
    files
}

fn inputs_of(case: &GraphCase) -> Vec<String> {
    let mut v = vec![];
    for &i in &case.requested {
        // (with `outside` the base directory is proj/: inputs are spelled relative to it)
        let p = if case.outside { crate::gen::rel("proj", &case.path_of(i)) } else { case.path_of(i) };
        match case.input_style {
            0 => v.push(p),
            1 => v.push(if case.outside { crate::gen::rel("proj", &case.src_of(i)) } else { case.src_of(i) }),
            2 => v.push(format!("./{p}")),
            3 => {
                v.push(p.clone());
                v.push(case.src_of(i));
                v.push(format!("./{p}"));
                // a spelling with `..` (directory `alias` always exists in graph projects)
                v.push(format!("alias/../{p}"));
            }
            4 => {}
            _ => v.push(p),
        }
    }
    if case.input_style >= 4 {
        v.insert(0, if case.linked { "proj".into() } else { ".".into() });
        if case.input_style == 5 {
            v.push(".".into());
        }
    }
    v
}

/// Execute one graph case under one schedule and judge it
pub fn exec(ctx: &mut Ctx, case: &GraphCase, spec: Spec, log_events: bool) -> GraphRun {
    let g = case.graph();
    let root = ctx.scratch.fresh();
    let logs = ctx.scratch.root.join("logs");
    let _ = std::fs::create_dir_all(&logs);
    let mlog = logs.join("m.log");
    let olog = logs.join("o.log");
    let _ = std::fs::remove_file(&mlog);
    let _ = std::fs::remove_file(&olog);
    let mlog_s = mlog.to_string_lossy().to_string();
    let olog_s = olog.to_string_lossy().to_string();
    let files = build_files(case, 1, Some(&mlog_s), Some(&olog_s));
    let mut dirs = vec![];
    if case.input_style == 3 {
        dirs.push("alias".to_string()); // for the `alias/../f` spelling
    }
    if case.subdirs {
        dirs.push("d".to_string());
    }
    if case.vanish {
        dirs.push("gone".to_string());
    }
    if case.linked {
        dirs.push("proj".to_string());
    }
    if case.outside {
        dirs.push("proj".to_string());
        dirs.push("shared".to_string());
    }
    let base_dir = if case.outside { root.join("proj") } else { root.clone() };
    if let (Some((pmask, plain)), false) = (case.prior, case.linked) {
        // earlier revision, built in this process in this directory
        let mut pc = case.clone();
        pc.mask = pmask;
        pc.kinds = case.kinds & pmask;
        pc.markers = false;
        pc.obs = false;
        pc.fail_at = None;
        pc.vanish = false;
        pc.slow_ms = 0;
        pc.prior = None;
        let mut pf = build_files(&pc, 0, None, None);
        for i in 0..case.n {
            if plain >> i & 1 == 1 {
                pf.remove(&pc.src_of(i));
                pf.insert(pc.path_of(i), format!("{}:hand-written:g0\n", graph_name(i)).into_bytes());
            }
        }
        materialize(&root, &pf, &dirs);
        let pcfg = RunCfg { base: base_dir.clone(), inputs: if case.outside { vec![".".into(), "../shared".into()] } else { vec![".".into()] }, mode: Mode::Build, threads: 2, recursive: true, trailing: true, shell: String::new() };
        let _ = run_inproc(&pcfg, Spec::Free { delay: None }, Some(&base_dir), false);
        ctx.count("prior_revision_builds_in_the_same_process_and_directory", 1);
    }
    materialize(&root, &files, &dirs);
    if case.linked {
        for i in 0..case.n {
            let src = case.src_of(i);
            let name = src.rsplit('/').next().unwrap().to_string();
            let _ = std::os::unix::fs::symlink(format!("../{src}"), root.join("proj").join(&name));
        }
    }
    if let (Some(f), 8) = (case.fail_at, case.fail_kind) {
        // the model keeps the clean text; on disk a line in the middle of the source is undecodable
        let p = root.join(case.src_of(f));
        let mut b = std::fs::read(&p).unwrap_or_default();
        let needle = format!("{}:tail:", graph_name(f)).into_bytes();
        let idx = b.windows(needle.len()).rposition(|w| w == &needle[..]).unwrap_or(0); // start of the tail line
        b.splice(idx..idx, [0xff, 0xfe, b' ', b'b', b'a', b'd', b'\n']);
        let _ = std::fs::write(&p, b);
    }
    // what a correct build leaves: model on the fresh sources
    let all_requested = case.input_style >= 4;
    let req_vertices: Vec<usize> = if all_requested { (0..case.n).collect() } else { case.requested.clone() };
    let mut required = vec![false; case.n];
    for &i in &req_vertices {
        for (v, r) in g.reach(i).iter().enumerate() {
            if *r {
                required[v] = true;
            }
        }
    }
    let required_sources: Vec<String> = (0..case.n).filter(|&i| required[i]).map(|i| case.src_of(i)).collect();
    let expect = model::evaluate(&files, &root.to_string_lossy(), true, &required_sources);
    // stale previous generation at every output path
    if case.stale {
        let old = build_files(case, 0, None, None);
        let old_expect = model::evaluate(&old, &root.to_string_lossy(), true, &(0..case.n).map(|i| case.src_of(i)).collect::<Vec<_>>());
        for i in 0..case.n {
            let p = case.path_of(i);
            let bytes = match (case.stale_ext, expect.built.outputs.get(&p), old_expect.built.outputs.get(&p)) {
                (true, Some(fresh), _) => format!("{}{}:stale-extension:g0\nmore\n", fresh[0], graph_name(i)).into_bytes(),
                // (an empty previous output would be no leftover at all: use the marker text then)
                (_, _, Some(v)) if !v[0].is_empty() => v[0].clone().into_bytes(),
                _ => format!("{}:stale:g0\n", graph_name(i)).into_bytes(),
            };
            if case.stale_link && !case.subdirs && !case.linked && !case.outside {
                let _ = std::fs::create_dir_all(root.join("old"));
                let _ = std::fs::write(root.join("old").join(&p), bytes);
                let _ = std::fs::remove_file(root.join(&p));
                let _ = std::os::unix::fs::symlink(format!("old/{p}"), root.join(&p));
            } else {
                let _ = std::fs::write(root.join(&p), bytes);
            }
        }
    }
    // verify mode: plant the outputs a correct build would have left (for cyclic graphs made of
    // `after`-only edges: the self-consistent outputs of an earlier, cycle-free revision)
    if matches!(case.mode, Mode::Verify) {
        let all: Vec<String> = (0..case.n).map(|i| case.src_of(i)).collect();
        let mut base = files.clone();
        if !g.is_acyclic() {
            for v in base.values_mut() {
                let t = String::from_utf8_lossy(v).to_string();
                *v = t.lines().filter(|l| !l.contains("TXTPP#after")).map(|l| format!("{l}\n")).collect::<String>().into_bytes();
            }
        }
        let e = model::evaluate(&base, &root.to_string_lossy(), true, &all);
        for (o, v) in &e.built.outputs {
            let _ = std::fs::write(root.join(o), v[0].as_bytes());
        }
    }
    // faults that live in the tree rather than in the sources
    if let Some(f) = case.fail_at {
        let p = root.join(case.path_of(f));
        match case.fail_kind {
            5 => {
                let _ = std::fs::remove_file(&p);
                let _ = std::fs::create_dir_all(&p);
            }
            6 | 7 => {
                if case.fail_kind == 6 {
                    let mut b = std::fs::read(&p).unwrap_or_default();
                    b.push(b'!');
                    let _ = std::fs::write(&p, b);
                } else {
                    let _ = std::fs::remove_file(&p);
                }
            }
            _ => {}
        }
    }
    let before = snap(&root);
    let cfg = RunCfg { base: base_dir.clone(), inputs: inputs_of(case), mode: case.mode.clone(), threads: case.threads, recursive: true, trailing: true, shell: String::new() };
    let outcome = run_inproc(&cfg, spec, Some(&base_dir), log_events);
    ctx.evals += 1;
    for (on, name) in [(case.spaced, "spaced"), (case.no_tail, "no_tail"), (case.stale_ext, "stale_ext"), (case.linked, "linked"), (case.empty_leaves, "empty_leaves"), (case.outside, "outside"), (case.stale_link, "stale_link"), (case.same_prefix, "same_prefix"), (case.prior.is_some(), "prior"), (case.shaped, "shaped"), (case.subdirs, "subdirs"), (case.big, "big"), (case.requested.is_empty() && case.input_style < 4, "empty_selection")] {
        if on {
            ctx.count(&format!("executions_with_variant_{name}"), 1);
        }
    }
    let after = snap(&root);
    let mut problems = liveness_problems(&outcome);
    let cyclic_req = req_vertices.iter().any(|&i| g.reaches_cycle(i));
    let fail_req = case.fail_at.map(|f| required[f]).unwrap_or(false);
    let expected_ok = !cyclic_req && !fail_req;
    if let Some(why) = &expect.out_of_domain {
        ctx.count("graph_out_of_domain", 1);
        ctx.cover("graph_out_of_domain_reasons", &why.chars().take(100).collect::<String>());
    }
    let judged = problems.is_empty() && !matches!(outcome.verdict, Verdict::Watchdog) && expect.out_of_domain.is_none();
    if judged {
        let ok = outcome.verdict.is_ok();
        if ok && !expected_ok {
            problems.push((if cyclic_req { "false-success-cycle".into() } else { "false-success-fault".into() }, format!("run reported success although {}", if cyclic_req { "a requested file reaches a dependency cycle" } else { "a required file contains a failing command" })));
        }
        if !ok && expected_ok {
            problems.push(("false-failure".into(), format!("run failed on a correct acyclic project: {}", outcome.verdict.short())));
        }
        // a failure that is *reported as a dependency cycle* although no requested file reaches one
        // (e.g. a file that merely failed, with dependents still waiting for it)
        if let Verdict::Err(m) = &outcome.verdict {
            if !cyclic_req && m.contains("Circular dependenc") {
                problems.push(("false-circular".into(), format!("the run reported a circular dependency although no requested file can reach a cycle (expected: {}): {}", if expected_ok { "success" } else { "the failure of the faulty file" }, outcome.verdict.short())));
            }
        }
        // bytes of every required file whose sequential build succeeds (all of them when expected_ok)
        if matches!(case.mode, Mode::Build | Mode::InMemoryBuild) && (ok || cyclic_req) && !(fail_req) {
            for i in 0..case.n {
                if !required[i] || g.reaches_cycle(i) {
                    continue;
                }
                let p = case.path_of(i);
                let src = case.src_of(i);
                if !matches!(expect.per_source.get(&src), Some(Ok(()))) {
                    continue;
                }
                let want = &expect.built.outputs[&p];
                match after.files.get(&p) {
                    None => problems.push(("missing-output".into(), format!("{p} missing after the run (verdict {})", outcome.verdict.short()))),
                    Some(e) => {
                        // (an output path that is a symbolic link is read through the link)
                        let got = if e.is_symlink { std::fs::read(root.join(&p)).unwrap_or_default() } else { e.bytes.clone() };
                        if !want.iter().any(|w| w.as_bytes() == &got[..]) {
                            let class = if ok { "wrong-bytes" } else { "bystander-wrong" };
                            problems.push((class.into(), format!("{p}: got {} expected {}", show(&got), show(want[0].as_bytes()))));
                        }
                    }
                }
            }
        }
        // files that are not required must not be touched
        if matches!(case.mode, Mode::Build | Mode::InMemoryBuild) {
            for i in 0..case.n {
                if required[i] {
                    continue;
                }
                let p = case.path_of(i);
                if before.files.get(&p).map(|e| &e.bytes) != after.files.get(&p).map(|e| &e.bytes) {
                    problems.push(("unrequired-processed".into(), format!("{p} is not required by the inputs but was written")));
                }
            }
        }
        // T3: at most one completion per file
        if log_events {
            for (f, c) in done_counts(&outcome.trace.events) {
                if c > 1 {
                    problems.push(("double-complete".into(), format!("{} completed {c} times in one run", f.display())));
                }
            }
        }
        // marker counters
        if case.markers && matches!(case.mode, Mode::Build | Mode::InMemoryBuild | Mode::Verify) && !fail_req {
            let text = std::fs::read_to_string(&mlog).unwrap_or_default();
            let mut counts: BTreeMap<String, u32> = BTreeMap::new();
            for l in text.lines() {
                *counts.entry(l.trim().to_string()).or_insert(0) += 1;
            }
            for i in 0..case.n {
                let name = graph_name(i);
                let got = counts.get(&name).copied().unwrap_or(0);
                let want = if required[i] && !g.reaches_cycle(i) && (ok || cyclic_req) { 1 } else { 0 };
                if got != want && (ok || cyclic_req) {
                    problems.push(("marker-count".into(), format!("command of {name} (after its dependency directives) executed {got} times, expected {want}")));
                }
            }
        }
        // observation log: every cat saw the complete fresh dependency
        if case.obs {
            let text = std::fs::read_to_string(&olog).unwrap_or_default();
            for l in text.lines() {
                let w: Vec<&str> = l.split(' ').collect();
                if w.len() == 5 && w[1] == "saw" {
                    let dep = w[2];
                    let idx: usize = dep.trim_start_matches('f').trim_end_matches(".txt").parse().unwrap_or(0);
                    let p = case.path_of(idx);
                    if let Some(want) = expect.built.outputs.get(&p) {
                        let good = want.iter().any(|x| cksum(x.as_bytes()) == format!("{} {}", w[3], w[4]));
                        if !good {
                            problems.push(("obs-stale".into(), format!("a command in {} ran when {dep} was not the complete fresh output (saw cksum {} {}, fresh is {})", w[0], w[3], w[4], cksum(want[0].as_bytes()))));
                        }
                    }
                }
            }
        }
        if matches!(case.mode, Mode::Verify) && ok != expected_ok {
            // covered by the verdict checks above
        }
    }
    let th = trace_hash(&outcome.trace.events);
    ctx.scratch.discard(&root);
    GraphRun { outcome, problems, trace_hash: th, expected_ok }
}

pub struct DfsStats {
    pub executions: u64,
    pub complete: bool,
    pub diverged: u64,
}

/// Stateless DFS over gate schedules by re-execution. `on_run` gets every run; returning false stops.
pub fn dfs(ctx: &mut Ctx, case: &GraphCase, cap: u64, eager_recv: bool, mut on_run: impl FnMut(&mut Ctx, &GraphRun, &Spec) -> bool) -> DfsStats {
    let mut prefix: Vec<(u32, u32)> = vec![];
    let mut st = DfsStats { executions: 0, complete: false, diverged: 0 };
    loop {
        let spec = Spec::Controlled { strategy: Strategy::Dfs(prefix.clone()), early_poll_at: None, eager_recv };
        let run = exec(ctx, case, spec.clone(), true);
        st.executions += 1;
        st.diverged += run.outcome.trace.diverged as u64;
        let log = run.outcome.trace.choice_log.clone();
        let go_on = on_run(ctx, &run, &spec);
        if !go_on {
            return st;
        }
        // backtrack
        let mut next = log;
        loop {
            match next.pop() {
                None => {
                    st.complete = true;
                    return st;
                }
                Some((c, n)) => {
                    if c + 1 < n {
                        next.push((c + 1, n));
                        break;
                    }
                }
            }
        }
        prefix = next;
        if st.executions >= cap || !ctx.time_left() {
            return st;
        }
    }
}

/// record the run-level evidence every scheduling driver reports
pub fn account(ctx: &mut Ctx, run: &GraphRun) {
    let t = &run.outcome.trace;
    ctx.count("hook_events", t.events.len() as u64);
    ctx.count("tasks_spawned", t.spawned);
    ctx.count("results_received", t.received);
    if t.held_at_begin {
        ctx.count("schedules_holding_a_task_at_its_begin_gate_while_another_ran", 1);
    }
    ctx.max("max_tasks_parked_at_gates", t.max_parked as u64);
    ctx.count("early_polls", t.early_polls as u64);
    ctx.count("receive_steps_conceded_to_a_blocked_send", t.forced_recvs as u64);
    if t.deadlock {
        ctx.count("deadlocks", 1);
    }
    if run.expected_ok {
        ctx.count("runs_expected_ok", 1);
    } else {
        ctx.count("runs_expected_error", 1);
    }
}


/// A real executed case written out for the evidence file: the case, the schedule that was
/// followed and the event trace the monitors saw
pub fn sample_json(case: &GraphCase, run: &GraphRun, spec: &Spec) -> Value {
    let mut v = case.to_json(spec);
    let names: Vec<String> = run
        .outcome
        .trace
        .events
        .iter()
        .filter_map(|e| match e {
            crate::sched::Event::Spawn { id, kind, path } => Some(format!("spawn#{id} {kind:?} {}", path.file_name().map(|x| x.to_string_lossy().to_string()).unwrap_or_default())),
            crate::sched::Event::Begin(id) => Some(format!("begin#{id}")),
            crate::sched::Event::Ready(id, ok) => Some(format!("ready#{id} ok={ok}")),
            crate::sched::Event::End(id, p) => Some(format!("sent#{id}{}", if *p { " PANICKED" } else { "" })),
            crate::sched::Event::Recv(r) => Some(match r {
                txtpp::verif::Received::HasDeps { file, deps } => format!("recv HasDeps({}, {} deps)", file.file_name().map(|x| x.to_string_lossy().to_string()).unwrap_or_default(), deps.len()),
                txtpp::verif::Received::Done { file } => format!("recv Done({})", file.file_name().map(|x| x.to_string_lossy().to_string()).unwrap_or_default()),
                other => format!("recv {other:?}"),
            }),
            crate::sched::Event::RunEnd(ok) => Some(format!("run_end ok={ok}")),
            crate::sched::Event::Deadlock { done, total } => Some(format!("DEADLOCK done={done} total={total}")),
            _ => None,
        })
        .take(60)
        .collect();
    if let Some(m) = v.as_object_mut() {
        m.insert("observed_verdict".into(), json!(run.outcome.verdict.short()));
        m.insert("expected_ok".into(), json!(run.expected_ok));
        m.insert("choices_taken".into(), json!(run.outcome.trace.choice_log.iter().map(|(c, n)| format!("{c}/{n}")).collect::<Vec<_>>()));
        m.insert("event_trace".into(), json!(names));
        m.insert("monitor_findings".into(), json!(run.problems.iter().map(|p| p.0.clone()).collect::<Vec<_>>()));
    }
    v
}
