//! C04 — no false success: a failure in any required file fails the whole run.
//! Part A: fault kind x position in the dependency graph x schedule (in-process, graph engine).
//! Part B: real OS faults through the CLI (ENOSPC via /dev/full, EFBIG via RLIMIT_FSIZE, EISDIR,
//! killed commands) x position x thread count x hook delays; exit status is the oracle.

use crate::fw::{Ctx, PropInfo, Tier};
use crate::props::graph::{account, dfs, exec, GraphCase};
use crate::run::{run_cli, CliOpts, RunCfg};
use crate::sched::{FixedOrder, Spec, Strategy};
use crate::util::{materialize, Files};
use rand::rngs::StdRng;
use rand::{Rng, SeedableRng};
use serde_json::{json, Value};
use txtpp::Mode;

pub fn info() -> PropInfo {
    PropInfo {
        id: "C04",
        level: "fault_enumeration",
        rule: "Part A (in-process, controlled schedules): every labelled DAG on <=3 files x fault vertex x fault kind {failing command, missing include, unused tag, temp target in a missing directory, include of a non-UTF-8 file, a non-UTF-8 line in the middle of the source itself, output path is a directory (EISDIR; build, needed, verify, clean), tampered output under verify, deleted output under verify} x requested selections (faulty file requested / only reachable as a dependency / not required at all) x N in {1,2} x all gate schedules (DFS, eager receive) plus adversarial fixed orders; oracle: run must fail iff the faulty file is required, and when it reports success every required output equals the sequential model. Part B (CLI, real OS faults): chains and fan-ins of 3 files where one file's output () is a symlink to /dev/full (ENOSPC at flush), or RLIMIT_FSIZE cuts output writes or only a temp-file write after K bytes (EFBIG, SIGXFSZ ignored), or a command kills its own shell with a signal, x position {leaf, middle, root, unrelated sibling} x -j 1..8 x seeded hook delays; oracle: exit status non-zero, and exit 0 on the fault-free control. Non-trivial = the fault sits in a required file (it must fire); distinct = distinct (graph, fault, position, schedule trace | CLI configuration). Later additions: CLI verify of a tampered output in seven option spellings (-N verify, --needed verify, -r -N verify ...), RLIMIT_FSIZE inside a 20 KB directive result written last (include / command output, with and without -n, limits around the 8 KiB buffer), fixed-order cases in which the faulty file is reached only through a symbolic link in the requested directory.",
        assumptions: &["faults the OS cannot be made to produce here (EIO, permission errors as root) are not exercised", "/dev/full and RLIMIT_FSIZE behave as on a real full disk / quota for write(2)"],
        floor: (1500, 20_000),
        shards: (16, 16),
        run,
        replay,
    }
}

const CLASSES: &[&str] = &["deadlock", "panic-main", "panic-worker", "false-success-fault", "false-success-cycle", "false-failure", "wrong-bytes", "missing-output"];

fn report(ctx: &mut Ctx, case: &GraphCase, run: &crate::props::graph::GraphRun, spec: &Spec) -> bool {
    let mut any = false;
    for (class, msg) in &run.problems {
        if CLASSES.contains(&class.as_str()) {
            any = true;
            let g = case.graph();
            let kind = ["failing-command", "missing-include", "unused-tag", "temp-missing-dir", "non-utf8-include", "output-is-directory", "verify-tampered", "verify-deleted", "non-utf8-source-line"][case.fail_kind.min(8) as usize];
            ctx.violation(
                format!("C04:{class}:{kind}:{}", crate::run::mode_name(&case.mode)),
                format!("{msg}\nfault {kind} in f{:?}; edges {:?}; requested {:?} (style {}); N={}; schedule {:?}", case.fail_at, (0..case.n).map(|i| g.succ(i)).collect::<Vec<_>>(), case.requested, case.input_style, case.threads, run.outcome.trace.choice_log),
                case.to_json(spec),
            );
        }
    }
    any
}

fn part_a(ctx: &mut Ctx) {
    let mut k = 0u64;
    let mut r = StdRng::seed_from_u64(ctx.shard_seed());
    ctx.exhaustive = Some(true);
    'all: for n in 1..=3usize {
        for mask in 0..(1u64 << (n * n)) {
            if !crate::gen::Graph::from_mask(n, mask, 0).is_acyclic() {
                continue;
            }
            for fault in 0..n {
                for kind in 0..9u8 {
                    // quick: rotate kinds over the cases instead of the full product
                    let modes: Vec<Mode> = match kind {
                        5 => vec![Mode::Build, Mode::InMemoryBuild, Mode::Verify, Mode::Clean],
                        6 | 7 => vec![Mode::Verify],
                        _ => vec![Mode::Build, Mode::InMemoryBuild],
                    };
                    for mode in modes {
                        let sels: Vec<Vec<usize>> = (1..(1u32 << n)).map(|b| (0..n).filter(|i| b >> i & 1 == 1).collect()).collect();
                        for req in sels {
                            for threads in 1..=2usize {
                                k += 1;
                                if ctx.tier == Tier::Quick && n == 3 && (k % 5 != (ctx.seed % 5)) {
                                    ctx.exhaustive = Some(false);
                                    continue;
                                }
                                if !ctx.claim(k) {
                                    continue;
                                }
                                let mut case = GraphCase::new(n, mask);
                                case.fail_at = Some(fault);
                                case.fail_kind = kind;
                                case.mode = mode.clone();
                                case.requested = req.clone();
                                case.threads = threads;
                                case.markers = false;
                                case.stale = !matches!(mode, Mode::Verify | Mode::Clean);
                                case.input_style = if kind == 5 { 1 } else { (k % 2) as u8 };
                                if matches!(mode, Mode::Clean) {
                                    // clean does not follow dependencies: the fault must be requested itself
                                    if !req.contains(&fault) {
                                        continue;
                                    }
                                }
                                let g = case.graph();
                                let required = req.iter().any(|&i| g.reach(i)[fault]);
                                let chash = case.hash();
                                let mut stop = false;
                                let st = dfs(ctx, &case, 5_000, true, |ctx, run, spec| {
                                    account(ctx, run);
                                    if required && case.n >= 2 {
                                        ctx.sample(|| crate::props::graph::sample_json(&case, run, spec));
                                    }
                                    if required {
                                        ctx.distinct.insert(chash ^ run.trace_hash.rotate_left(13));
                                        ctx.count("runs_where_the_fault_must_fire", 1);
                                        if run.outcome.verdict.is_err() {
                                            ctx.count("faults_that_failed_the_run", 1);
                                        }
                                    }
                                    ctx.cover("fault_kinds", &format!("{kind}:{}", crate::run::mode_name(&case.mode)));
                                    if report(ctx, &case, run, spec) {
                                        stop = true;
                                        return false;
                                    }
                                    true
                                });
                                ctx.count("dfs_cases", 1);
                                if !st.complete && !stop {
                                    ctx.exhaustive = Some(false);
                                }
                                if !ctx.time_left() || ctx.violations.len() > 25 {
                                    ctx.exhaustive = Some(false);
                                    break 'all;
                                }
                            }
                        }
                    }
                }
            }
        }
    }
    // adversarial fixed orders on 4-file graphs: error arrives first / last
    let n4 = ctx.tier.pick(30, 600);
    for _ in 0..n4 {
        if !ctx.time_left() {
            break;
        }
        let mut mask = 0u64;
        for i in 0..4 {
            for j in (i + 1)..4 {
                if r.gen_bool(0.4) {
                    mask |= 1 << (i * 4 + j);
                }
            }
        }
        let mut case = GraphCase::new(4, mask);
        case.fail_at = Some(r.gen_range(0..4));
        case.fail_kind = r.gen_range(0..5);
        case.requested = vec![0, r.gen_range(0..4)];
        case.threads = r.gen_range(1..=4);
        case.markers = false;
        if r.gen_bool(0.3) {
            // the faulty file is reached only through a symbolic link in the requested directory
            case.linked = true;
            case.input_style = 4;
            case.fail_kind = r.gen_range(0..4);
        }
        for f in [FixedOrder::RunFirstLifo, FixedOrder::RecvFirstFifo, FixedOrder::DepsLast] {
            let spec = Spec::Controlled { strategy: Strategy::Fixed(f), early_poll_at: None, eager_recv: false };
            let run = exec(ctx, &case, spec.clone(), true);
            account(ctx, &run);
            ctx.count("fixed_order_executions", 1);
            report(ctx, &case, &run, &spec);
        }
        let spec = Spec::Natural { delay: Some((r.gen(), 500)) };
        let run = exec(ctx, &case, spec.clone(), true);
        ctx.count("natural_flavour_executions", 1);
        report(ctx, &case, &run, &spec);
    }
}

// ------------------------------------------------------------------------------ Part B (CLI)

#[derive(Debug, Clone)]
struct CliFault {
    /// 0 chain a->b->c, 1 fan-in a->{b,c}, 2 unrelated siblings, 3 unrelated siblings and the chunk comes from a command
    shape: u8,
    /// which file carries the fault: 0 = a (root), 1 = b, 2 = c
    pos: u8,
    /// "devfull-output" | "fsize-temp" | "fsize" | "fsize-chunk" | "killed-command" | "verify-tampered" | "none"
    kind: String,
    /// fsize-chunk: byte limit; verify-tampered: index into VERIFY_SPELLINGS
    param: u64,
    /// pass --no-trailing-newline
    no_trailing: bool,
    threads: usize,
    delay: Option<(u64, u64)>,
    big: bool,
}

fn cli_files(f: &CliFault) -> Files {
    let names = ["a.txt", "b.txt", "c.txt"];
    let mut files = Files::new();
    for (i, n) in names.iter().enumerate() {
        let mut s = format!("{n} head\n");
        match (f.shape, i) {
            (0, 0) => s.push_str("-TXTPP#include b.txt\n"),
            (0, 1) => s.push_str("-TXTPP#include c.txt\n"),
            (1, 0) => s.push_str("-TXTPP#include b.txt\n-TXTPP#include c.txt\n"),
            _ => {}
        }
        if f.pos as usize == i {
            match f.kind.as_str() {
                "fsize-temp" => s.push_str("// TXTPP#temp big.tmp\n// a temp body that is much longer than the thirty bytes the file size limit allows\n//\n"),
                "killed-command" => s.push_str("<!--TXTPP#run printf partial; kill -KILL $$\n"),
                // one directive result of 20 KB is the *last* thing written to the victim's output
                // (no tail line for the victim: see below)
                "fsize-chunk" => s.push_str(if f.shape == 3 { "<!--TXTPP#run cat chunk.inc\n" } else { "<!--TXTPP#include chunk.inc\n" }),
                _ => {}
            }
        }
        if f.big && f.pos as usize == i {
            // > 64 KiB so that RLIMIT_FSIZE bites in the middle of the stream, not only at flush
            for k in 0..3000 {
                s.push_str(&format!("filler line {k} of {n} ....................................\n"));
            }
        }
        if !(f.kind == "fsize-chunk" && f.pos as usize == i) {
            s.push_str(&format!("{n} tail\n"));
        }
        files.insert(format!("{n}.txtpp"), s.into_bytes());
    }
    if f.kind == "fsize-chunk" {
        let mut c: String = (0..400).map(|k| format!("chunk line {k:04} ....................................\n")).collect();
        if f.no_trailing {
            c.pop(); // the chunk itself has no final newline either: nothing at all follows it
        }
        files.insert("chunk.inc".into(), c.into_bytes());
    }
    files
}

/// spellings of a verify invocation: options given before the subcommand belong to the top level
/// and do not turn the run into anything but a verify
const VERIFY_SPELLINGS: [&[&str]; 7] = [&["verify"], &["-N", "verify"], &["--needed", "verify"], &["-q", "verify"], &["-n", "verify"], &["-r", "-N", "verify"], &["-j", "2", "--needed", "verify"]];

/// build, tamper with one output, then verify through the CLI in one of the spellings: exit status must be 1
fn cli_verify_case(ctx: &mut Ctx, f: &CliFault) {
    let root = ctx.scratch.fresh();
    materialize(&root, &cli_files(f), &[]);
    let names = ["a.txt", "b.txt", "c.txt"];
    let victim = names[f.pos as usize];
    let inputs: Vec<String> = match f.shape {
        2 | 3 => vec!["a.txt.txtpp".into(), "b.txt.txtpp".into(), "c.txt.txtpp".into()],
        _ => vec!["a.txt.txtpp".into()],
    };
    let cj = json!({"kind": "cli", "shape": f.shape, "pos": f.pos, "fault": f.kind, "threads": f.threads, "delay": Value::Null, "big": f.big, "param": f.param, "no_trailing": f.no_trailing});
    let build = RunCfg { base: root.clone(), inputs: inputs.clone(), mode: Mode::Build, threads: f.threads, recursive: false, trailing: true, shell: String::new() };
    let o = run_cli(&root, &build.cli_args(), &CliOpts::default());
    ctx.evals += 1;
    if o.timed_out {
        ctx.inconclusive(format!("CLI watchdog: {cj}"));
        ctx.scratch.discard(&root);
        return;
    }
    if o.code != Some(0) {
        ctx.violation("C04:cli:control-failed", format!("fault-free build failed: {}", o.short()), cj);
        ctx.scratch.discard(&root);
        return;
    }
    let spelling = VERIFY_SPELLINGS[f.param as usize % VERIFY_SPELLINGS.len()];
    let mut args: Vec<String> = spelling.iter().map(|x| x.to_string()).collect();
    args.extend(["-q".to_string(), "-j".to_string(), f.threads.to_string(), "--".to_string()]);
    args.extend(inputs.iter().cloned());
    // control: untampered tree verifies
    let o = run_cli(&root, &args, &CliOpts::default());
    ctx.count("cli_runs", 2);
    if !o.timed_out && o.code != Some(0) {
        ctx.violation("C04:cli:control-failed", format!("`txtpp {}` failed on a freshly built tree: {}", args.join(" "), o.short()), cj.clone());
    }
    let vp = root.join(victim);
    let mut b = std::fs::read(&vp).unwrap_or_default();
    match f.param / 7 % 3 {
        0 => b.push(b'!'),
        1 => {
            b.pop();
        }
        _ => {
            let k = b.len() / 2;
            b[k] ^= 1;
        }
    }
    let _ = std::fs::write(&vp, &b);
    let o = run_cli(&root, &args, &CliOpts::default());
    ctx.evals += 1;
    ctx.count("cli_runs", 1);
    ctx.cover("cli_fault_kinds", &f.kind);
    ctx.cover("verify_spellings", &spelling.join(" "));
    ctx.distinct.insert(crate::util::hash_str(&cj.to_string()));
    if o.timed_out {
        ctx.inconclusive(format!("CLI watchdog: {cj}"));
    } else if o.code == Some(0) {
        ctx.violation("C04:cli:false-success:verify-tampered", format!("`txtpp {}` exited 0 although {victim} was tampered with (shape {}, -j {}): {}", args.join(" "), f.shape, f.threads, o.short()), cj);
    } else if o.code != Some(1) {
        ctx.violation("C04:cli:abnormal-exit:verify-tampered", format!("txtpp did not exit with a reported error: {}", o.short()), cj);
    } else {
        ctx.count("cli_faults_reported_as_failure", 1);
        if std::fs::read(&vp).unwrap_or_default() != b {
            ctx.violation("C04:cli:verify-rewrote-output", format!("`txtpp {}` reported the mismatch but changed {victim}", args.join(" ")), cj);
        }
    }
    ctx.scratch.discard(&root);
}

fn cli_case(ctx: &mut Ctx, f: &CliFault) {
    if f.kind == "verify-tampered" {
        return cli_verify_case(ctx, f);
    }
    let root = ctx.scratch.fresh();
    materialize(&root, &cli_files(f), &[]);
    let names = ["a.txt", "b.txt", "c.txt"];
    let victim = names[f.pos as usize];
    let mut opts = CliOpts::default();
    match f.kind.as_str() {
        "devfull-output" => {
            let _ = std::os::unix::fs::symlink("/dev/full", root.join(victim));
        }
        // every output stays below 30 bytes (unrelated siblings): only the temp write can hit the limit
        "fsize-temp" => opts.fsize_limit = Some(30),
        "fsize" => opts.fsize_limit = Some(if f.big { 40_000 } else { 4 }),
        // the limit falls inside the 20 KB chunk that ends the victim's output
        "fsize-chunk" => opts.fsize_limit = Some(f.param),
        _ => {}
    }
    if let Some((seed, max)) = f.delay {
        opts.env.push(("TXTPP_VERIF".into(), format!("delay={seed}:{max}")));
    }
    // inputs: by source name / directory (naming the output would resolve the symlink's target)
    let inputs: Vec<String> = match f.shape {
        2 | 3 => vec!["a.txt.txtpp".into(), "b.txt.txtpp".into(), "c.txt.txtpp".into()],
        _ => vec!["a.txt.txtpp".into()],
    };
    let cfg = RunCfg { base: root.clone(), inputs, mode: Mode::Build, threads: f.threads, recursive: false, trailing: !f.no_trailing, shell: String::new() };
    let o = run_cli(&root, &cfg.cli_args(), &opts);
    ctx.evals += 1;
    ctx.count("cli_runs", 1);
    ctx.cover("cli_fault_kinds", &f.kind);
    let cj = json!({"kind": "cli", "shape": f.shape, "pos": f.pos, "fault": f.kind, "threads": f.threads, "delay": f.delay.map(|d| vec![d.0, d.1]), "big": f.big, "param": f.param, "no_trailing": f.no_trailing});
    if o.timed_out {
        ctx.inconclusive(format!("CLI watchdog: {cj}"));
        ctx.scratch.discard(&root);
        return;
    }
    if f.kind == "none" {
        if o.code != Some(0) {
            ctx.violation("C04:cli:control-failed", format!("fault-free control run failed: {}", o.short()), cj);
        }
    } else {
        ctx.distinct.insert(crate::util::hash_str(&cj.to_string()));
        // small outputs under fsize=4: every file is larger than 4 bytes, so the limit always fires
        if o.code == Some(0) {
            ctx.violation(format!("C04:cli:false-success:{}", f.kind), format!("txtpp exited 0 although {} hit file {victim} (shape {}, -j {}): stderr {}", f.kind, f.shape, f.threads, o.short()), cj);
        } else if o.code != Some(1) {
            ctx.violation(format!("C04:cli:abnormal-exit:{}", f.kind), format!("txtpp did not exit with a reported error: {}", o.short()), cj);
        } else {
            ctx.count("cli_faults_reported_as_failure", 1);
        }
    }
    ctx.scratch.discard(&root);
}

fn part_b(ctx: &mut Ctx) {
    let mut r = StdRng::seed_from_u64(ctx.shard_seed() ^ 0xb);
    let n = ctx.tier.pick(10, 300);
    let kinds = ["devfull-output", "fsize-temp", "fsize", "killed-command", "none", "fsize-chunk", "verify-tampered"];
    for i in 0..n {
        if !ctx.time_left() {
            break;
        }
        let kind = kinds[(i as usize + ctx.shard as usize) % kinds.len()];
        let f = CliFault {
            shape: if kind == "fsize-temp" { 2 } else if kind == "fsize-chunk" && r.gen_bool(0.3) { 3 } else { r.gen_range(0..3) },
            pos: r.gen_range(0..3),
            kind: kind.into(),
            threads: [1, 2, 4, 8][r.gen_range(0..4)],
            delay: if r.gen_bool(0.5) { Some((r.gen::<u32>() as u64, 2000)) } else { None },
            big: kind == "fsize" && r.gen_bool(0.5),
            // chunk: limits below, at and above the 8 KiB buffer boundary, always inside the chunk
            param: if kind == "fsize-chunk" { [100u64, 4096, 8191, 8192, 8193, 8300, 12_288, 16_384, 19_000][r.gen_range(0..9)] + r.gen_range(0..3) * 7 } else { r.gen_range(0..21) },
            no_trailing: kind == "fsize-chunk" && r.gen_bool(0.6),
        };
        cli_case(ctx, &f);
    }
}

fn run(ctx: &mut Ctx) {
    // split the budget: B is cheap and bounded by count
    part_b(ctx);
    part_a(ctx);
}

fn replay(ctx: &mut Ctx, v: &Value) {
    if v["kind"].as_str() == Some("cli") {
        let f = CliFault {
            shape: v["shape"].as_u64().unwrap_or(0) as u8,
            pos: v["pos"].as_u64().unwrap_or(0) as u8,
            kind: v["fault"].as_str().unwrap_or("none").into(),
            threads: v["threads"].as_u64().unwrap_or(1) as usize,
            delay: v["delay"].as_array().and_then(|a| Some((a.first()?.as_u64()?, a.get(1)?.as_u64()?))),
            big: v["big"].as_bool().unwrap_or(false),
            param: v["param"].as_u64().unwrap_or(0),
            no_trailing: v["no_trailing"].as_bool().unwrap_or(false),
        };
        for _ in 0..10 {
            cli_case(ctx, &f);
        }
        return;
    }
    let (case, spec) = GraphCase::from_json(v);
    let run = exec(ctx, &case, spec.clone(), true);
    println!("  run: {} problems {:?}", run.outcome.verdict.short(), run.problems);
    report(ctx, &case, &run, &spec);
}
