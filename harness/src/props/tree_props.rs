//! C06 (verify), C07 (clean), C08 (hermetic builds), C09 (--needed), C10 (write set):
//! snapshot monitors over generated projects, with real builds as oracles.

use crate::fw::{Ctx, PropInfo};
use crate::gen::{gen_project, GenOpts};
use crate::model::{self, Expect};
use crate::props::common::{judge_project, run_project_at, ProjectCase};
use crate::run::{run_cli, run_inproc, CliOpts, Outcome, RunCfg, Verdict};
use crate::sched::Spec;
use crate::util::{diff, files_json, materialize, set_sentinels, show, snap, Files, Snap};
use rand::rngs::StdRng;
use rand::{Rng, SeedableRng};
use serde_json::{json, Value};
use std::collections::BTreeSet;
use std::path::{Path, PathBuf};
use txtpp::Mode;

pub struct Built {
    pub case: ProjectCase,
    pub root: PathBuf,
    pub expect: Expect,
    pub good: Snap,
}

impl Built {
    pub fn outputs(&self) -> Vec<String> {
        self.expect.built.outputs.keys().cloned().collect()
    }
    pub fn temps(&self) -> Vec<String> {
        self.expect.built.temps.keys().cloned().collect()
    }
    pub fn generated(&self) -> Vec<String> {
        self.outputs().into_iter().chain(self.temps()).collect()
    }
}

pub fn run_at(root: &Path, case: &ProjectCase, mode: Mode, trailing: bool) -> Outcome {
    run_at_spec(root, case, mode, trailing, Spec::Free { delay: None })
}

pub fn run_at_spec(root: &Path, case: &ProjectCase, mode: Mode, trailing: bool, spec: Spec) -> Outcome {
    let cfg = RunCfg { base: root.to_path_buf(), inputs: case.inputs.clone(), mode, threads: case.threads, recursive: case.recursive, trailing, shell: String::new() };
    run_inproc(&cfg, spec, Some(root), false)
}

/// extra sources with special output sizes (empty, exactly one / two BufReader buffers, ...)
fn size_class_source(r: &mut StdRng) -> (String, Vec<u8>) {
    let n = [0usize, 1, 8191, 8192, 8193, 16384, 20000][r.gen_range(0..7)];
    let mut s = String::new();
    if n > 0 {
        // one long line, then short lines, total output = n bytes with trailing newline on
        let mut left = n;
        while left > 0 {
            let l = left.min(if r.gen_bool(0.5) { 4000 } else { 9000 });
            s.push_str(&"a".repeat(l - 1));
            s.push('\n');
            left -= l;
        }
    }
    (format!("size{n}.txt.txtpp"), s.into_bytes())
}

/// Generate projects until one is in-domain and builds successfully according to the model,
/// build it for real in a fresh directory and confirm the tree matches the model.
pub fn build_good(ctx: &mut Ctx, r: &mut StdRng, opts: &GenOpts, marker_log: Option<&Path>) -> Option<Built> {
    for _ in 0..50 {
        let p = gen_project(r, opts);
        let mut files = p.files;
        if r.gen_bool(0.15) {
            let (n, b) = size_class_source(r);
            files.insert(n, b);
        }
        if let Some(log) = marker_log {
            // a marker command in some sources: lets the monitors see command executions
            let srcs = model::sources(&files);
            for s in srcs {
                if r.gen_bool(0.5) {
                    let mut text = String::from_utf8_lossy(&files[&s]).to_string();
                    let le = if text.contains("\r\n") && text.find('\n').map(|i| i > 0 && text.as_bytes()[i - 1] == b'\r').unwrap_or(false) { "\r\n" } else { "\n" };
                    let line = format!("<!--mk TXTPP#run echo {} >> {}{le}", s.replace('/', "_").replace('\u{fc}', "u"), log.display());
                    if r.gen_bool(0.5) || text.is_empty() {
                        text = format!("{line}{text}");
                    } else {
                        if !text.ends_with('\n') {
                            text.push_str(le);
                        }
                        text.push_str(&line);
                    }
                    files.insert(s, text.into_bytes());
                }
            }
        }
        let pre = model::evaluate(&files, "/nonexistent", p.trailing, &model::sources(&files));
        if pre.out_of_domain.is_some() || pre.verdict.is_err() || pre.built.outputs.is_empty() {
            continue;
        }
        let mut case = ProjectCase::simple(files);
        case.trailing = p.trailing;
        case.threads = [1, 2, 4][r.gen_range(0..3)];
        let root = ctx.scratch.fresh();
        let res = run_project_at(ctx, &case, &root, false);
        if !judge_project(&case, &res).is_empty() || !res.outcome.verdict.is_ok() {
            // C01's business; do not build follow-up verdicts on a tree that is already wrong
            ctx.count("projects_skipped_because_the_build_disagrees_with_the_model", 1);
            ctx.scratch.discard(&root);
            continue;
        }
        return Some(Built { case, root, expect: res.expect, good: res.after });
    }
    None
}

fn only(snapshot: &Snap, paths: &[String]) -> Files {
    paths.iter().filter_map(|p| snapshot.files.get(p).map(|e| (p.clone(), e.bytes.clone()))).collect()
}

fn case_json(b: &Built, extra: Value) -> Value {
    let mut v = b.case.to_json();
    if let (Some(m), Some(e)) = (v.as_object_mut(), extra.as_object()) {
        for (k, x) in e {
            m.insert(k.clone(), x.clone());
        }
    }
    v
}

// ------------------------------------------------------------------------------------- C06

pub fn info_c06() -> PropInfo {
    PropInfo {
        id: "C06",
        level: "exploration",
        rule: "generated successful projects with dependencies (C01 generator plus sources with output sizes 0, 1, 8191, 8192, 8193, 16384, 20000 bytes). After a build: verify must pass and change nothing; then for every output of every processed source and dependency, each single-point tampering (flip / insert / delete one byte at first, middle, last offset; append one byte; append a newline; append a copy of the last line; truncate to 0, 1, mid, len-1; delete the file) must make verify fail while the tampered file keeps bytes, inode and sentinel mtime; restored tree must verify again; option mismatch (trailing-newline flipped) and source edits (appended text line, appended empty directive) are judged against the real build run right after verify on the same tree (verify must pass iff that build leaves every output byte-identical). A CLI sample runs under strace: no output path may be opened for writing, created, renamed or unlinked by txtpp. Non-trivial = a tampering / mismatch / edit actually applied; distinct = distinct (project, output, tamper) triples. Later additions: dependency outputs tampered while only the top file is verified; outputs that are symbolic links to regular files; a source that comes after another and includes its temp file (temp deleted / temp body edited, slow generator); outputs containing U+FFFD with same-length ill-formed replacements; edits that make the build fail (missing include, unused tag).",
        assumptions: &["the build run right after verify defines 'what a build would write now' (commands are deterministic, D7)", "temp files are not part of the comparison"],
        floor: (1500, 20_000),
        shards: (16, 16),
        run: run_c06,
        replay: replay_c06,
    }
}

fn tamper_variants(orig: &[u8]) -> Vec<(String, Option<Vec<u8>>)> {
    let n = orig.len();
    let mut v: Vec<(String, Option<Vec<u8>>)> = vec![("delete-file".into(), None)];
    let mut push = |name: &str, b: Vec<u8>| v.push((name.to_string(), Some(b)));
    push("append-byte", [orig.to_vec(), vec![b'Z']].concat());
    push("append-newline", [orig.to_vec(), vec![b'\n']].concat());
    if n > 0 {
        for (nm, i) in [("first", 0usize), ("mid", n / 2), ("last", n - 1)] {
            let mut b = orig.to_vec();
            b[i] ^= 0x01;
            push(&format!("flip-{nm}"), b);
            let mut b = orig.to_vec();
            b.insert(i, b'Q');
            push(&format!("insert-{nm}"), b);
            let mut b = orig.to_vec();
            b.remove(i);
            push(&format!("delete-{nm}"), b);
        }
        for (nm, k) in [("0", 0usize), ("1", 1.min(n - 1)), ("mid", n / 2), ("len-1", n - 1)] {
            push(&format!("truncate-{nm}"), orig[..k].to_vec());
        }
        let tail_start = orig[..n - 1].iter().rposition(|b| *b == b'\n').map(|i| i + 1).unwrap_or(0);
        push("append-last-line", [orig.to_vec(), orig[tail_start..].to_vec()].concat());
    }
    v.retain(|(_, b)| b.as_deref() != Some(orig));
    v
}

fn c06_project(ctx: &mut Ctx, b: &Built, r: &mut StdRng) {
    let outs = b.outputs();
    let phash = b.case.hash();
    // 1. up to date: verify passes, nothing is touched
    set_sentinels(&b.root);
    let s0 = snap(&b.root);
    let v = run_at(&b.root, &b.case, Mode::Verify, b.case.trailing);
    ctx.evals += 1;
    let s1 = snap(&b.root);
    if !v.verdict.is_ok() {
        ctx.violation("C06:rejects-up-to-date", format!("verify right after a successful build failed: {}", v.verdict.short()), case_json(b, json!({"step": "fresh"})));
        return;
    }
    let d = diff(&s0, &s1);
    for p in d.all_paths() {
        if outs.contains(&p) {
            ctx.violation("C06:verify-touched-output", format!("verify (passing) changed output {p} (bytes, inode or mtime)"), case_json(b, json!({"step": "fresh"})));
        }
    }
    // 2. single-point tamperings
    let quick = ctx.tier == crate::fw::Tier::Quick;
    for o in &outs {
        let orig = b.good.files[o].bytes.clone();
        let mut variants = tamper_variants(&orig);
        if quick && variants.len() > 8 {
            // rotate through the classes across outputs/projects instead of all on each
            let start = r.gen_range(0..variants.len());
            variants = (0..8).map(|i| variants[(start + i * 3) % variants.len()].clone()).collect();
        }
        for (name, bytes) in variants {
            let path = b.root.join(o);
            match &bytes {
                Some(x) => std::fs::write(&path, x).unwrap(),
                None => {
                    let _ = std::fs::remove_file(&path);
                }
            }
            set_sentinels(&b.root);
            let st = snap(&b.root);
            let v = run_at(&b.root, &b.case, Mode::Verify, b.case.trailing);
            ctx.evals += 1;
            let sa = snap(&b.root);
            ctx.distinct.insert(phash ^ crate::util::hash_str(&format!("{o}|{name}")));
            ctx.cover("tamper_classes", &name);
            if v.verdict.is_ok() {
                ctx.violation(format!("C06:accepts-tamper:{name}"), format!("verify passed although output {o} was tampered ({name}): file {} fresh {}", show(bytes.as_deref().unwrap_or(b"<deleted>")), show(&orig)), case_json(b, json!({"step": "tamper", "output": o, "tamper": name})));
            } else if !v.verdict.is_err() {
                ctx.inconclusive(format!("verify verdict {:?}", v.verdict.short()));
            }
            if st.files.get(o) != sa.files.get(o) {
                ctx.violation("C06:verify-modified-output", format!("verify ({}) created / modified / deleted the tampered output {o} ({name})", v.verdict.short()), case_json(b, json!({"step": "tamper", "output": o, "tamper": name})));
            }
            std::fs::write(&path, &orig).unwrap();
        }
    }
    // 2b. only a top-level file is named: its .txtpp dependencies must still be verified
    for top in model::sources(&b.case.files) {
        let closure = model::evaluate(&b.case.files, &b.root.to_string_lossy(), b.case.trailing, &[top.clone()]);
        let top_out = model::output_of(&top).unwrap();
        let deps: Vec<String> = closure.built.outputs.keys().filter(|o| **o != top_out).cloned().collect();
        if deps.is_empty() {
            continue;
        }
        let mut sub = b.case.clone();
        sub.inputs = vec![if r.gen_bool(0.5) { top.clone() } else { top_out.clone() }];
        let v0 = run_at(&b.root, &sub, Mode::Verify, b.case.trailing);
        ctx.evals += 1;
        if !v0.verdict.is_ok() {
            ctx.violation("C06:rejects-up-to-date", format!("verify of {:?} alone fails on an up-to-date tree: {}", sub.inputs, v0.verdict.short()), case_json(b, json!({"step": "dependency-selection", "inputs": sub.inputs})));
            break;
        }
        for o in &deps {
            let orig = b.good.files[o].bytes.clone();
            let variants = tamper_variants(&orig);
            for k in 0..3.min(variants.len()) {
                let (name, bytes) = variants[(r.gen_range(0..variants.len()) + k) % variants.len()].clone();
                let path = b.root.join(o);
                match &bytes {
                    Some(x) => std::fs::write(&path, x).unwrap(),
                    None => {
                        let _ = std::fs::remove_file(&path);
                    }
                }
                set_sentinels(&b.root);
                let st = snap(&b.root);
                let v = run_at(&b.root, &sub, Mode::Verify, b.case.trailing);
                ctx.evals += 1;
                let sa = snap(&b.root);
                ctx.distinct.insert(phash ^ crate::util::hash_str(&format!("dep|{top}|{o}|{name}")));
                ctx.count("dependency_only_tamperings", 1);
                if v.verdict.is_ok() {
                    ctx.violation(format!("C06:accepts-tampered-dependency:{name}"), format!("verify of {:?} passed although the output {o} of its .txtpp dependency was tampered ({name})", sub.inputs), case_json(b, json!({"step": "dependency-selection", "inputs": sub.inputs, "output": o, "tamper": name})));
                }
                if st.files.get(o) != sa.files.get(o) {
                    ctx.violation("C06:verify-modified-output", format!("verify of {:?} changed the dependency output {o} ({name})", sub.inputs), case_json(b, json!({"step": "dependency-selection", "inputs": sub.inputs, "output": o, "tamper": name})));
                }
                std::fs::write(&path, &orig).unwrap();
            }
        }
        break;
    }
    let v = run_at(&b.root, &b.case, Mode::Verify, b.case.trailing);
    ctx.evals += 1;
    if !v.verdict.is_ok() {
        ctx.violation("C06:rejects-restored", format!("verify fails after every output was restored: {}", v.verdict.short()), case_json(b, json!({"step": "restored"})));
        return;
    }
    // 3. option mismatch and source edits, judged by the build run right after
    let srcs = model::sources(&b.case.files);
    for step in ["flip-trailing", "edit-append-text", "edit-append-empty-directive", "edit-append-failing-directive", "edit-append-unused-tag", "edit-temp-body"] {
        let mut trailing = b.case.trailing;
        let mut restore: Option<(String, Vec<u8>)> = None;
        match step {
            "flip-trailing" => trailing = !trailing,
            "edit-temp-body" => {
                // change only a content line of a temp directive (the temp file on disk is now stale)
                let mut done = false;
                for s in &srcs {
                    let old = b.case.files[s].clone();
                    let t = String::from_utf8_lossy(&old).to_string();
                    let lines: Vec<&str> = t.split_inclusive('\n').collect();
                    if let Some(i) = (0..lines.len().saturating_sub(1)).find(|&i| lines[i].contains("TXTPP#temp ") && lines[i + 1].contains("body")) {
                        let mut out = String::new();
                        for (k, l) in lines.iter().enumerate() {
                            if k == i + 1 {
                                out.push_str(&l.replacen("body", "edited body", 1));
                            } else {
                                out.push_str(l);
                            }
                        }
                        std::fs::write(b.root.join(s), out.as_bytes()).unwrap();
                        restore = Some((s.clone(), old));
                        done = true;
                        break;
                    }
                }
                if !done {
                    continue;
                }
            }
            _ => {
                let s = &srcs[r.gen_range(0..srcs.len())];
                let old = b.case.files[s].clone();
                let mut text = old.clone();
                let le: &[u8] = if model::split(&String::from_utf8_lossy(&old)).1 == "\r\n" { b"\r\n" } else { b"\n" };
                if !text.is_empty() && !text.ends_with(b"\n") {
                    text.extend_from_slice(le);
                }
                text.extend_from_slice(match step {
                    "edit-append-text" => &b"appended by the harness"[..],
                    "edit-append-failing-directive" => &b"<!--e TXTPP#include file-that-was-removed-after-the-build.txt"[..],
                    // a tag that is never used: a build of this source fails now, so the outputs on
                    // disk are not what a build would write
                    "edit-append-unused-tag" => &b"<!--e TXTPP#tag NEVERUSED"[..],
                    _ => &b"<!--e TXTPP# appended"[..],
                });
                text.extend_from_slice(le);
                std::fs::write(b.root.join(s), &text).unwrap();
                restore = Some((s.clone(), old));
            }
        }
        set_sentinels(&b.root);
        let s0 = snap(&b.root);
        let v = run_at(&b.root, &b.case, Mode::Verify, trailing);
        let s1 = snap(&b.root);
        let bd = run_at(&b.root, &b.case, Mode::Build, trailing);
        let s2 = snap(&b.root);
        ctx.evals += 2;
        let expected_ok = bd.verdict.is_ok() && only(&s1, &outs) == only(&s2, &outs);
        ctx.distinct.insert(phash ^ crate::util::hash_str(step));
        ctx.cover("mismatch_steps", &format!("{step}:{}", if expected_ok { "still-up-to-date" } else { "stale" }));
        if matches!(v.verdict, Verdict::Ok | Verdict::Err(_)) && matches!(bd.verdict, Verdict::Ok | Verdict::Err(_)) && v.verdict.is_ok() != expected_ok {
            ctx.violation(
                format!("C06:{}:{step}", if v.verdict.is_ok() { "accepts-stale" } else { "rejects-up-to-date" }),
                format!("after {step}: verify {} but the build run right after {} and {} the outputs", v.verdict.short(), bd.verdict.short(), if only(&s1, &outs) == only(&s2, &outs) { "did not change" } else { "changed" }),
                case_json(b, json!({"step": step})),
            );
        }
        for p in diff(&s0, &s1).all_paths() {
            if outs.contains(&p) {
                ctx.violation("C06:verify-touched-output", format!("verify ({step}) changed output {p}"), case_json(b, json!({"step": step})));
            }
        }
        if let Some((s, old)) = restore {
            std::fs::write(b.root.join(&s), &old).unwrap();
        }
        // back to the good tree
        let rb = run_at(&b.root, &b.case, Mode::Build, b.case.trailing);
        if !rb.verdict.is_ok() {
            ctx.inconclusive("rebuild after mismatch step failed");
            return;
        }
    }
}

/// CLI verify under strace: txtpp itself must not open an output for writing / unlink / rename it
fn c06_strace(ctx: &mut Ctx, b: &Built, tampered: bool) {
    let outs = b.outputs();
    if tampered {
        let o = &outs[0];
        let mut x = b.good.files[o].bytes.clone();
        x.push(b'!');
        std::fs::write(b.root.join(o), x).unwrap();
    }
    let prefix = ctx.scratch.root.join("strace").join("t");
    let _ = std::fs::remove_dir_all(prefix.parent().unwrap());
    let _ = std::fs::create_dir_all(prefix.parent().unwrap());
    let cfg = RunCfg { base: b.root.clone(), inputs: vec![".".into()], mode: Mode::Verify, threads: 2, recursive: true, trailing: b.case.trailing, shell: String::new() };
    let o = run_cli(&b.root, &cfg.cli_args(), &CliOpts { strace_prefix: Some(prefix.clone()), ..Default::default() });
    ctx.evals += 1;
    ctx.count("straced_cli_runs", 1);
    let tr = crate::sys::parse_strace(prefix.parent().unwrap(), &b.root);
    ctx.count("syscalls_classified", tr.lines_by_txtpp as u64);
    if (o.code == Some(0)) == tampered {
        ctx.violation("C06:cli-verdict", format!("CLI verify exit {:?} on a {} tree", o.code, if tampered { "tampered" } else { "fresh" }), case_json(b, json!({"step": "strace", "tampered": tampered})));
    }
    for w in tr.writes.iter().chain(tr.deletes.iter()) {
        if outs.iter().any(|o| b.root.join(o) == *w) {
            ctx.violation("C06:syscall-write-to-output", format!("verify issued a write-open / create / rename / unlink on output {}", w.display()), case_json(b, json!({"step": "strace", "tampered": tampered})));
        }
    }
    if tampered {
        std::fs::write(b.root.join(&outs[0]), &b.good.files[&outs[0]].bytes).unwrap();
    }
}

/// Output paths that are symbolic links to regular files elsewhere (`docs/README.md -> ../README.md`):
/// build writes through the link; verify has to read through it as well: it passes on the fresh
/// tree, fails when the linked file is tampered with, and changes nothing in either case.
fn c06_symlinked_output(ctx: &mut Ctx, r: &mut StdRng) {
    let root = ctx.scratch.fresh();
    let mut files = Files::new();
    // the link text lengths (12, 13, ...) are made to coincide with some output lengths on purpose
    let body_len = r.gen_range(0..4usize);
    let src = format!("{}\n-TXTPP#run echo gen\n", "x".repeat(body_len + 7));
    files.insert("docs/short.txt.txtpp".into(), src.into_bytes());
    files.insert("docs/README.md.txtpp".into(), b"# readme\n<!-- TXTPP#include part.md\nend\n".to_vec());
    files.insert("docs/part.md".into(), b"part one\npart two\n".to_vec());
    materialize(&root, &files, &["store".to_string()]);
    let links = [("docs/short.txt", "../short.txt", "short.txt"), ("docs/README.md", "../store/README.md", "store/README.md")];
    for (l, t, real) in links {
        let _ = std::fs::write(root.join(real), b"old\n");
        let _ = std::os::unix::fs::symlink(t, root.join(l));
    }
    let mut case = ProjectCase::simple(files.clone());
    case.threads = [1, 2, 4][r.gen_range(0..3)];
    case.inputs = vec![["docs", ".", "docs/README.md"][r.gen_range(0..3)].to_string()];
    let only_readme = case.inputs[0] == "docs/README.md";
    let cj = json!({"kind": "symlinked-output", "inputs": case.inputs, "threads": case.threads, "body_len": body_len});
    let b = run_at(&root, &case, Mode::Build, true);
    ctx.evals += 1;
    if !b.verdict.is_ok() {
        // D13 (generated paths are regular files or absent) is left here on purpose; a build that
        // refuses to write through a link is not judged
        ctx.count("symlinked_output_build_not_ok", 1);
        ctx.scratch.discard(&root);
        return;
    }
    set_sentinels(&root);
    let s1 = snap(&root);
    let v = run_at(&root, &case, Mode::Verify, true);
    ctx.evals += 1;
    ctx.count("symlinked_output_cases", 1);
    if matches!(v.verdict, Verdict::Watchdog) {
        ctx.inconclusive("watchdog in verify (symlinked output)");
        ctx.scratch.discard(&root);
        return;
    }
    if !v.verdict.is_ok() {
        ctx.violation("C06:rejects-up-to-date", format!("verify right after a successful build failed when output paths are symbolic links to regular files: {}", v.verdict.short()), cj.clone());
    }
    if snap(&root) != s1 {
        ctx.violation("C06:verify-modified-output", "verify changed the tree (outputs behind symbolic links)".to_string(), cj.clone());
    }
    for (l, _, real) in links {
        if only_readme && l != "docs/README.md" {
            continue;
        }
        let p = root.join(real);
        let good = std::fs::read(&p).unwrap_or_default();
        for how in ["append-byte", "append-line", "truncate-last", "flip-first"] {
            let mut bad = good.clone();
            match how {
                "append-byte" => bad.push(b'!'),
                "append-line" => bad.extend_from_slice(b"one more line\n"),
                "truncate-last" => {
                    bad.pop();
                }
                _ => bad[0] ^= 1,
            }
            let _ = std::fs::write(&p, &bad);
            let v = run_at(&root, &case, Mode::Verify, true);
            ctx.evals += 1;
            if v.verdict.is_ok() {
                ctx.violation(format!("C06:accepts-tamper:{how}"), format!("verify passed although {real} (the file behind the output link {l}) was tampered with ({how})"), cj.clone());
            }
            if std::fs::read(&p).unwrap_or_default() != bad {
                ctx.violation("C06:verify-modified-output", format!("verify rewrote {real}"), cj.clone());
            }
            let _ = std::fs::write(&p, &good);
        }
    }
    ctx.distinct.insert(crate::util::hash_str(&cj.to_string()));
    ctx.scratch.discard(&root);
}

/// A source that comes `after` another one and then includes that one's *temp file*: verify has to
/// honour the ordering like build does (verify regenerates temp files). With the temp file deleted
/// the up-to-date tree still verifies; with the temp directive's body edited the includer's output is
/// out of date and verify fails; outputs are never touched.
fn c06_temp_through_after(ctx: &mut Ctx, r: &mut StdRng) {
    let root = ctx.scratch.fresh();
    let delay = ["", "sleep 0.2; ", "sleep 0.5; "][r.gen_range(0..3)];
    let gen_src = |item: &str| format!("-TXTPP#run {delay}echo gen\n// TXTPP#temp list.tmp\n// {item}\n// second\n\ngen tail\n");
    let mut files = Files::new();
    files.insert("gen.txt.txtpp".into(), gen_src("item one").into_bytes());
    files.insert("page.txt.txtpp".into(), b"page head\n-TXTPP#after gen.txt\n-TXTPP#include list.tmp\npage tail\n".to_vec());
    materialize(&root, &files, &[]);
    let mut case = ProjectCase::simple(files.clone());
    case.threads = [2usize, 4, 8][r.gen_range(0..3)];
    case.inputs = vec![[".", "page.txt"][r.gen_range(0..2)].to_string()];
    let cj = json!({"kind": "temp-through-after", "threads": case.threads, "inputs": case.inputs, "delay": delay});
    let b = run_at(&root, &case, Mode::Build, true);
    ctx.evals += 1;
    if !b.verdict.is_ok() {
        ctx.count("temp_through_after_build_not_ok", 1);
        ctx.scratch.discard(&root);
        return;
    }
    ctx.count("temp_through_after_cases", 1);
    let outs = ["gen.txt", "page.txt"];
    let good: Vec<Vec<u8>> = outs.iter().map(|o| std::fs::read(root.join(o)).unwrap_or_default()).collect();
    // (1) temp file missing, everything else up to date
    let _ = std::fs::remove_file(root.join("list.tmp"));
    let v = run_at(&root, &case, Mode::Verify, true);
    ctx.evals += 1;
    if !matches!(v.verdict, Verdict::Watchdog) && !v.verdict.is_ok() {
        ctx.violation("C06:rejects-up-to-date", format!("every output is up to date, only the temp file of the dependency was deleted: verify failed ({})", v.verdict.short()), cj.clone());
    }
    // (2) only the temp directive's body changes: page.txt on disk is now out of date
    let _ = std::fs::write(root.join("gen.txt.txtpp"), gen_src("item ONE (edited)"));
    let v = run_at(&root, &case, Mode::Verify, true);
    ctx.evals += 1;
    if !matches!(v.verdict, Verdict::Watchdog) && v.verdict.is_ok() {
        ctx.violation("C06:accepts-stale:edit-temp-body", "the body of the dependency's temp directive was edited, so the includer's output is out of date, but verify passed (it used the temp file an earlier run left behind)".to_string(), cj.clone());
    }
    for (o, g) in outs.iter().zip(good.iter()) {
        if &std::fs::read(root.join(o)).unwrap_or_default() != g {
            ctx.violation("C06:verify-modified-output", format!("verify changed {o}"), cj.clone());
        }
    }
    ctx.distinct.insert(crate::util::hash_str(&format!("{cj}{}", ctx.evals)));
    ctx.scratch.discard(&root);
}

/// Outputs that contain U+FFFD (or other multi-byte characters): a tampering that replaces the
/// character's bytes by an ill-formed sequence of the same length must be noticed (verify compares
/// bytes, not decoded text).
fn c06_replacement_char(ctx: &mut Ctx, r: &mut StdRng) {
    let root = ctx.scratch.fresh();
    let mut files = Files::new();
    let body = "notes \u{fffd} mid\n-TXTPP#run printf 'r\\357\\277\\275s\\n'\nend \u{fffd}\u{e9}\n".to_string();
    files.insert("n.md.txtpp".into(), body.into_bytes());
    materialize(&root, &files, &[]);
    let mut case = ProjectCase::simple(files);
    case.threads = [1, 2][r.gen_range(0..2)];
    let b = run_at(&root, &case, Mode::Build, true);
    ctx.evals += 1;
    if !b.verdict.is_ok() {
        ctx.scratch.discard(&root);
        return;
    }
    let good = std::fs::read(root.join("n.md")).unwrap_or_default();
    let positions: Vec<usize> = (0..good.len().saturating_sub(2)).filter(|&i| good[i..i + 3] == [0xef, 0xbf, 0xbd]).collect();
    ctx.count("replacement_char_cases", 1);
    for &p in &positions {
        for repl in [[0xf0u8, 0xbf, 0xbd], [0xef, 0xbf, 0xff], [0xc0, 0x80, 0xbd]] {
            let mut bad = good.clone();
            bad[p..p + 3].copy_from_slice(&repl);
            let _ = std::fs::write(root.join("n.md"), &bad);
            let v = run_at(&root, &case, Mode::Verify, true);
            ctx.evals += 1;
            if v.verdict.is_ok() {
                ctx.violation("C06:accepts-tamper:flip-mid", format!("verify passed although the bytes EF BF BD at offset {p} of n.md were replaced by {repl:02x?} (same length, ill-formed UTF-8)"), json!({"kind": "replacement-char"}));
            }
        }
    }
    let _ = std::fs::write(root.join("n.md"), &good);
    ctx.distinct.insert(crate::util::hash_str(&format!("fffd{}{}", case.threads, ctx.evals)));
    ctx.scratch.discard(&root);
}

fn run_c06(ctx: &mut Ctx) {
    let mut r = StdRng::seed_from_u64(ctx.shard_seed());
    let n = ctx.tier.pick(40, 1500);
    let opts = GenOpts { error_pct: 0, ..GenOpts::default() };
    for i in 0..n {
        if !ctx.time_left() || ctx.violations.len() > 20 {
            break;
        }
        if i % 8 == 1 {
            c06_symlinked_output(ctx, &mut r);
        }
        if i % 8 == 5 {
            c06_temp_through_after(ctx, &mut r);
        }
        if i % 8 == 3 {
            c06_replacement_char(ctx, &mut r);
        }
        let Some(b) = build_good(ctx, &mut r, &opts, None) else { continue };
        c06_project(ctx, &b, &mut r);
        if i < ctx.tier.pick(1, 12) {
            c06_strace(ctx, &b, false);
            c06_strace(ctx, &b, true);
        }
        if i == 0 {
            ctx.sample(|| json!({"sources": model::sources(&b.case.files), "outputs": b.outputs(), "tamper_classes_per_output": tamper_variants(b"ab\ncd\n").iter().map(|v| v.0.clone()).collect::<Vec<_>>()}));
        }
        ctx.scratch.discard(&b.root);
    }
}

fn replay_c06(ctx: &mut Ctx, v: &Value) {
    if v["kind"].as_str() == Some("symlinked-output") {
        let mut r = StdRng::seed_from_u64(5);
        for _ in 0..30 {
            c06_symlinked_output(ctx, &mut r);
        }
        return;
    }
    if v["kind"].as_str() == Some("replacement-char") {
        let mut r = StdRng::seed_from_u64(5);
        c06_replacement_char(ctx, &mut r);
        return;
    }
    if v["kind"].as_str() == Some("temp-through-after") {
        let mut r = StdRng::seed_from_u64(5);
        for _ in 0..20 {
            c06_temp_through_after(ctx, &mut r);
        }
        return;
    }
    let case = ProjectCase::from_json(v);
    let root = ctx.scratch.fresh();
    let res = run_project_at(ctx, &case, &root, false);
    let b = Built { case, root, expect: res.expect, good: res.after };
    let mut r = StdRng::seed_from_u64(1);
    let saved = ctx.tier;
    ctx.tier = crate::fw::Tier::Thorough; // all tamper classes
    c06_project(ctx, &b, &mut r);
    ctx.tier = saved;
    if v["step"].as_str() == Some("strace") {
        c06_strace(ctx, &b, v["tampered"].as_bool().unwrap_or(false));
    }
}

// ------------------------------------------------------------------------------------- C07

pub fn info_c07() -> PropInfo {
    PropInfo {
        id: "C07",
        level: "exploration",
        rule: "generated projects (successful ones and ones with erroneous directives; temp targets in ../ and sub-directories, multi-line temps, temps after dependency directives; marker commands in about half of the sources). Histories from a tree S0 without generated files: build -> clean (snapshot must equal S0: same file set, bytes, and inode/mtime of every non-generated file; no directory created or removed), clean -> clean, clean without build, build -> delete some generated files -> clean, and for erroneous sources: (failed) build -> clean must succeed, touch nothing but generated paths and run no command. Marker log must not grow during any clean; a CLI sample runs clean under strace: no execve and no file creation by txtpp. Race rounds: 8 sources x 200 temp targets in a sub-directory that contains sources itself, build then recursive 8-thread clean, free-running (files vanish from a directory while another worker walks it). Non-trivial = the build generated at least one file or the project contains an erroneous directive; distinct = distinct (project, history). Later additions: temp targets that are dangling symbolic links (build, clean, clean, build again); temp targets outside the directory txtpp runs in (relative and absolute, absolute inputs from elsewhere); a malformed directive put on top of every source after a successful build; every source named by both of its names in 4-thread clean rounds; CLI clean in six option spellings with a whole-tree comparison; non-UTF-8 names.",
        assumptions: &["inputs are dependency-closed (directory input, recursive): Mode::Clean documents that dependencies are not followed", "generated paths = outputs and temp targets predicted by the reference model; for erroneous sources a superset obtained by scanning for temp directives"],
        floor: (150, 2500),
        shards: (16, 16),
        run: run_c07,
        replay: replay_c07,
    }
}

/// every path a temp directive could name + every output path: superset of what clean may delete
fn possible_generated(files: &Files) -> BTreeSet<String> {
    let mut s = BTreeSet::new();
    for src in model::sources(files) {
        if let Some(o) = model::output_of(&src) {
            s.insert(o);
        }
        let text = String::from_utf8_lossy(&files[&src]).to_string();
        let dir = model::dir_of(&src).to_string();
        for l in text.lines() {
            if let Some(i) = l.find("TXTPP#temp ") {
                // a temp directive without prefix is an error in every mode: it never generates (and
                // never cleans) anything, so its target is not a possibly generated path
                if l[..i].trim().is_empty() {
                    continue;
                }
                let arg = l[i + 11..].trim();
                if let Some(p) = model::norm_path(&dir, arg) {
                    s.insert(p);
                }
            }
        }
    }
    s
}

fn c07_case(ctx: &mut Ctx, case: &ProjectCase, mlog: &Path, history: &str, r: &mut StdRng) {
    let root = ctx.scratch.fresh();
    materialize(&root, &case.files, &case.dirs);
    set_sentinels(&root);
    let s0 = snap(&root);
    let _ = std::fs::remove_file(mlog);
    let expect = model::evaluate(&case.files, &root.to_string_lossy(), case.trailing, &model::sources(&case.files));
    if expect.out_of_domain.is_some() {
        ctx.count("out_of_domain", 1);
        ctx.scratch.discard(&root);
        return;
    }
    let cj = |extra: &str| {
        let mut v = case.to_json();
        v.as_object_mut().unwrap().insert("history".into(), json!(history));
        v.as_object_mut().unwrap().insert("note".into(), json!(extra));
        v
    };
    let possible = possible_generated(&case.files);
    let mut built_ok = false;
    if history != "clean-only" {
        let b = run_at(&root, case, Mode::Build, case.trailing);
        ctx.evals += 1;
        built_ok = b.verdict.is_ok();
        if built_ok != expect.verdict.is_ok() {
            ctx.count("build_verdict_differs_from_model_skipped", 1);
            ctx.scratch.discard(&root);
            return;
        }
    }
    let after_build = snap(&root);
    if history == "build-delete-some-clean" {
        for p in diff(&s0, &after_build).created {
            if r.gen_bool(0.5) {
                let _ = std::fs::remove_file(root.join(&p));
            }
        }
    }
    if history == "build-break-clean" && built_ok {
        // after the successful build a malformed (prefix-less, multi-line capable) directive is put
        // on top of every source: clean must still remove everything the build generated
        for s in model::sources(&case.files) {
            let p = root.join(&s);
            let old = std::fs::read(&p).unwrap_or_default();
            let le: &[u8] = if old.windows(2).next().is_some() && model::split(&String::from_utf8_lossy(&old)).1 == "\r\n" { b"\r\n" } else { b"\n" };
            let mut t = b"TXTPP#run echo inserted-after-the-build".to_vec();
            t.extend_from_slice(le);
            t.extend_from_slice(&old);
            let _ = std::fs::write(&p, t);
        }
    }
    let before_clean = snap(&root);
    let mark0 = std::fs::read(mlog).unwrap_or_default();
    let rounds = if history == "build-clean-clean" || history == "clean-only" { 2 } else { 1 };
    for round in 0..rounds {
        let c = run_at(&root, case, Mode::Clean, case.trailing);
        ctx.evals += 1;
        let s = snap(&root);
        if !c.verdict.is_ok() {
            if matches!(c.verdict, Verdict::Watchdog) {
                ctx.inconclusive("watchdog in clean");
            } else {
                ctx.violation(
                    if expect.verdict.is_ok() { "C07:clean-failed" } else { "C07:clean-failed-on-erroneous-source" },
                    format!("clean (round {round}, history {history}) returned {}; model verdict of the build: {:?}", c.verdict.short(), expect.verdict),
                    cj("clean verdict"),
                );
            }
            break;
        }
        for p in s0.files.keys() {
            if model::is_txtpp(p) && !s.files.contains_key(p) {
                ctx.violation("C07:deleted-txtpp-source", format!("clean deleted the .txtpp file {p}"), cj("txtpp file deleted"));
            }
        }
        let mark1 = std::fs::read(mlog).unwrap_or_default();
        if mark1 != mark0 {
            ctx.violation("C07:clean-ran-command", format!("a run command executed during clean: marker log grew by {:?}", String::from_utf8_lossy(&mark1[mark0.len().min(mark1.len())..])), cj("marker"));
        }
        let d = diff(&s0, &s);
        if history == "build-break-clean" && built_ok {
            // the sources were edited on purpose: only what was generated matters
            if !d.created.is_empty() || !d.deleted.is_empty() {
                ctx.violation(
                    if !d.created.is_empty() { "C07:left-behind" } else { "C07:deleted-non-generated" },
                    format!("build, then a malformed directive put on top of every source, then clean (round {round}): left behind {:?}, missing {:?}", d.created, d.deleted),
                    cj("restore"),
                );
            }
        } else if built_ok || history == "clean-only" {
            // exact restoration
            if !d.is_empty() {
                ctx.violation(
                    if !d.created.is_empty() { "C07:left-behind" } else if !d.deleted.is_empty() { "C07:deleted-non-generated" } else { "C07:modified-non-generated" },
                    format!("tree after {history} (round {round}) differs from the tree before the build: left behind {:?}, missing {:?}, content changed {:?}, touched {:?}, dirs +{:?} -{:?}", d.created, d.deleted, d.content, d.touched, d.dirs_created, d.dirs_deleted),
                    cj("restore"),
                );
            }
        } else {
            // failed build: clean may only remove generated paths, nothing else may change
            let dc = diff(&before_clean, &s);
            for p in dc.deleted.iter() {
                if !possible.contains(p) {
                    ctx.violation("C07:deleted-non-generated", format!("clean deleted {p}, which is neither an output nor a temp target"), cj("erroneous"));
                }
            }
            if !dc.created.is_empty() || !dc.content.is_empty() || !dc.touched.is_empty() || !dc.dirs_created.is_empty() || !dc.dirs_deleted.is_empty() {
                ctx.violation("C07:clean-wrote", format!("clean created/modified: {:?} {:?} {:?} dirs {:?} {:?}", dc.created, dc.content, dc.touched, dc.dirs_created, dc.dirs_deleted), cj("erroneous"));
            }
            // sources and static files intact
            for (p, e) in &s0.files {
                if s.files.get(p) != Some(e) && !possible.contains(p) {
                    ctx.violation("C07:modified-non-generated", format!("{p} changed across failed build + clean"), cj("erroneous"));
                }
            }
        }
    }
    if !diff(&s0, &after_build).created.is_empty() || expect.verdict.is_err() {
        ctx.distinct.insert(case.hash() ^ crate::util::hash_str(history));
    }
    ctx.cover("histories", history);
    ctx.scratch.discard(&root);
}

/// options in front of the `clean` subcommand belong to the top level: the run is still a clean
const CLEAN_SPELLINGS: [&[&str]; 6] = [&[], &["-N"], &["--needed"], &["-n"], &["-q", "-N"], &["-r", "--needed", "-j", "3"]];

fn c07_strace(ctx: &mut Ctx, case: &ProjectCase, spelling: usize) {
    // D7: a command outside the vocabulary (a run block that swallowed lines containing `>` ...)
    // may create files nobody can know about: such projects are not judged
    if model::evaluate(&case.files, "/nonexistent", case.trailing, &model::sources(&case.files)).out_of_domain.is_some() {
        ctx.count("out_of_domain", 1);
        return;
    }
    let root = ctx.scratch.fresh();
    materialize(&root, &case.files, &case.dirs);
    let s0 = snap(&root);
    let b = run_at(&root, case, Mode::Build, case.trailing);
    if !b.verdict.is_ok() {
        ctx.scratch.discard(&root);
        return;
    }
    let prefix = ctx.scratch.root.join("strace").join("t");
    let _ = std::fs::remove_dir_all(prefix.parent().unwrap());
    let _ = std::fs::create_dir_all(prefix.parent().unwrap());
    let cfg = RunCfg { base: root.clone(), inputs: vec![".".into()], mode: Mode::Clean, threads: 2, recursive: true, trailing: true, shell: String::new() };
    let top = CLEAN_SPELLINGS[spelling % CLEAN_SPELLINGS.len()];
    let mut args: Vec<String> = top.iter().map(|x| x.to_string()).collect();
    args.extend(cfg.cli_args());
    let o = run_cli(&root, &args, &CliOpts { strace_prefix: Some(prefix.clone()), ..Default::default() });
    ctx.evals += 1;
    ctx.count("straced_cli_runs", 1);
    ctx.cover("cli_clean_spellings", &format!("txtpp {} clean", top.join(" ")));
    let tr = crate::sys::parse_strace(prefix.parent().unwrap(), &root);
    ctx.count("syscalls_classified", tr.lines_by_txtpp as u64);
    if o.code != Some(0) {
        ctx.violation("C07:cli-clean-failed", format!("CLI clean: {}", o.short()), case.to_json());
    } else if !o.timed_out {
        let s1 = snap(&root);
        if s1.bytes() != s0.bytes() {
            let d = diff(&s0, &s1);
            ctx.violation("C07:left-behind", format!("after a build and `txtpp {}` the tree differs from the tree before the build: left behind {:?}, missing {:?}, changed {:?}", args.join(" "), d.created, d.deleted, d.content), case.to_json());
        }
    }
    if !tr.execs.is_empty() {
        ctx.violation("C07:clean-execve", format!("txtpp executed a program during clean: {:?}", tr.execs.iter().map(|e| e.argv.clone()).collect::<Vec<_>>()), case.to_json());
    }
    if !tr.creates.is_empty() {
        ctx.violation("C07:clean-created-file", format!("clean created {:?}", tr.creates), case.to_json());
    }
    ctx.scratch.discard(&root);
}

fn c07_make(ctx: &mut Ctx, r: &mut StdRng, mlog: &Path, erroneous: bool) -> ProjectCase {
    let _ = ctx;
    let opts = GenOpts { error_pct: if erroneous { 25 } else { 0 }, ..GenOpts::default() };
    let p = gen_project(r, &opts);
    let mut files = p.files;
    for s in model::sources(&files) {
        if r.gen_bool(0.5) {
            let mut text = String::from_utf8_lossy(&files[&s]).to_string();
            let line = format!("<!--mk TXTPP#run echo mk >> {}\n", mlog.display());
            text = format!("{line}{text}");
            files.insert(s, text.into_bytes());
        }
    }
    if erroneous {
        let srcs = model::sources(&files);
        let s = srcs[r.gen_range(0..srcs.len())].clone();
        let mut text = String::from_utf8_lossy(&files[&s]).to_string();
        if !text.is_empty() && !text.ends_with('\n') {
            text.push('\n');
        }
        match r.gen_range(0..4) {
            0 => {
                // the file includes its own output: a build error (cycle), nothing clean should care about
                let own = model::output_of(&s).unwrap();
                text.push_str(&format!("<!--c TXTPP#include {}\n<!--c TXTPP#temp cyc_{}.tmp\n<!--c after the cycle\n", own.rsplit('/').next().unwrap(), r.gen_range(0..3)));
            }
            2 => {
                // a prefix-less temp directive (always an error) naming an existing hand-written
                // file: no mode may touch that file
                let victim = ["inc_nl.txt", "inc_nonl.txt", "inc_crlf.txt"][r.gen_range(0..3)];
                if files.contains_key(victim) {
                    text.push_str(&format!("{}TXTPP#temp {}\n", ["", "  ", "\t"][r.gen_range(0..3)], crate::gen::rel(model::dir_of(&s), victim)));
                }
            }
            1 => {
                // a temp directive naming an existing source of the `stem.txtpp.ext` shape: refused by
                // build, and clean must never delete a .txtpp file
                if let Some(victim) = srcs.iter().find(|x| **x != s && !x.ends_with(".txtpp")) {
                    text.push_str(&format!("<!--c TXTPP#temp {}\n<!--c overwritten\n", crate::gen::rel(model::dir_of(&s), victim)));
                }
            }
            _ => {}
        }
        files.insert(s, text.into_bytes());
    }
    let mut c = ProjectCase::simple(files);
    c.trailing = p.trailing;
    c.threads = [1, 2, 4][r.gen_range(0..3)];
    c
}

/// Recursive multi-threaded clean while temp targets disappear from a directory that another
/// worker is scanning at the same time (free-running: the interleaving is inside one task's
/// directory walk, below gate granularity). Must succeed and restore the tree.
fn c07_race(ctx: &mut Ctx, rounds: usize) {
    let mut files = Files::new();
    for k in 0..8 {
        let mut s = String::new();
        for t in 0..200 {
            s.push_str(&format!("// TXTPP#temp gen/s{k}_{t}.part\n// part {t}\n\n"));
        }
        s.push_str(&format!("source {k}\n"));
        files.insert(format!("s{k}.txt.txtpp"), s.into_bytes());
    }
    files.insert("gen/inner.txt.txtpp".into(), b"inner\n".to_vec());
    files.insert("gen/deep/inner2.txt.txtpp".into(), b"inner2\n".to_vec());
    let mut case = ProjectCase::simple(files.clone());
    case.threads = 8;
    for round in 0..rounds {
        let root = ctx.scratch.fresh();
        materialize(&root, &files, &[]);
        let s0 = snap(&root);
        let b = run_at(&root, &case, Mode::Build, true);
        // odd rounds: every source is named twice (by its output name and by its `.txtpp` name) next
        // to the directory: each must still be cleaned exactly once
        let mut clean_case = case.clone();
        if round % 2 == 1 {
            clean_case.threads = 4;
            clean_case.inputs = model::sources(&files).iter().flat_map(|s| [model::output_of(s).unwrap(), s.clone()]).collect();
            ctx.count("clean_rounds_with_every_source_named_twice", 1);
        }
        let c = run_at(&root, &clean_case, Mode::Clean, true);
        ctx.evals += 2;
        ctx.count("clean_race_rounds", 1);
        let s1 = snap(&root);
        if b.verdict.is_ok() && !c.verdict.is_ok() {
            ctx.violation("C07:clean-failed", format!("recursive 8-thread clean after a successful build failed (round {round}): {}", c.verdict.short()), json!({"kind": "race"}));
            ctx.scratch.discard(&root);
            break;
        }
        if b.verdict.is_ok() && s0.bytes() != s1.bytes() {
            let d = diff(&s0, &s1);
            ctx.violation("C07:left-behind", format!("after build + recursive 8-thread clean: left behind {:?} (first 5), missing {:?}", d.created.iter().take(5).collect::<Vec<_>>(), d.deleted), json!({"kind": "race"}));
            ctx.scratch.discard(&root);
            break;
        }
        ctx.distinct.insert(crate::util::hash_str(&format!("race{round}{}", ctx.shard)));
        ctx.scratch.discard(&root);
    }
}

/// Temp targets that are pre-existing *dangling symbolic links* (e.g. `src/data.inc -> ../build/data.inc`):
/// build writes through the link and thereby creates the file behind it; clean has to remove that
/// generated file and leave the link, a non-generated file, alone: the tree is restored exactly.
fn c07_symlinked_temp(ctx: &mut Ctx, r: &mut StdRng) {
    let root = ctx.scratch.fresh();
    let n = r.gen_range(1..=3usize);
    let mut files = Files::new();
    let mut links: Vec<(String, String)> = vec![];
    let mut src = String::from("page head\n");
    for k in 0..n {
        let (arg, link, target) = match r.gen_range(0..3) {
            0 => (format!("data{k}.inc"), format!("src/data{k}.inc"), format!("../build/data{k}.inc")),
            1 => (format!("gen/part{k}.tmp"), format!("src/gen/part{k}.tmp"), format!("../../build/deep/part{k}.tmp")),
            _ => (format!("../other/t{k}.sh"), format!("other/t{k}.sh"), format!("{}/build/t{k}.sh", root.display())),
        };
        // a text line ends the block (a following `// ` line would continue the directive)
        src.push_str(&format!("// TXTPP#temp {arg}\n// echo generated {k}\n//\nbetween {k}\n"));
        if r.gen_bool(0.5) {
            src.push_str(&format!("<!--TXTPP#run cat {arg}\n"));
        }
        links.push((link, target));
    }
    src.push_str("page tail\n");
    files.insert("src/page.txt.txtpp".into(), src.into_bytes());
    files.insert("src/plain.txt".into(), b"plain\n".to_vec());
    materialize(&root, &files, &["build/deep".to_string(), "src/gen".to_string(), "other".to_string()]);
    for (l, t) in &links {
        let _ = std::os::unix::fs::symlink(t, root.join(l));
    }
    set_sentinels(&root);
    let s0 = snap(&root);
    let mut case = ProjectCase::simple(files.clone());
    case.threads = [1, 2, 4][r.gen_range(0..3)];
    case.inputs = vec![[".", "src", "src/page.txt"][r.gen_range(0..3)].to_string()];
    let cj = json!({"kind": "symlinked-temp", "links": links, "inputs": case.inputs, "source": String::from_utf8_lossy(&files["src/page.txt.txtpp"])});
    let b = run_at(&root, &case, Mode::Build, true);
    ctx.evals += 1;
    if !b.verdict.is_ok() {
        if matches!(b.verdict, Verdict::Watchdog) {
            ctx.inconclusive("watchdog in build (symlinked temp)");
        } else {
            ctx.violation("C07:symlinked-temp:build-failed", format!("build with temp targets behind dangling symbolic links failed: {}", b.verdict.short()), cj);
        }
        ctx.scratch.discard(&root);
        return;
    }
    let s1 = snap(&root);
    ctx.count("symlinked_temp_cases", 1);
    ctx.count("files_generated_behind_links", diff(&s0, &s1).created.len() as u64);
    for round in 0..2 {
        let c = run_at(&root, &case, Mode::Clean, true);
        ctx.evals += 1;
        if !c.verdict.is_ok() {
            if matches!(c.verdict, Verdict::Watchdog) {
                ctx.inconclusive("watchdog in clean (symlinked temp)");
            } else {
                ctx.violation("C07:clean-failed", format!("clean (round {round}) failed: {}", c.verdict.short()), cj.clone());
            }
            break;
        }
        let s2 = snap(&root);
        let d = diff(&s0, &s2);
        if !d.is_empty() {
            ctx.violation(
                if !d.created.is_empty() { "C07:left-behind" } else if !d.deleted.is_empty() { "C07:deleted-non-generated" } else { "C07:modified-non-generated" },
                format!("temp targets behind symbolic links: tree after build + clean (round {round}) differs from the tree before the build: left behind {:?}, missing {:?}, content changed {:?}, touched {:?}", d.created, d.deleted, d.content, d.touched),
                cj.clone(),
            );
            break;
        }
    }
    // ... and building again over the links that clean left dangling gives the first build's tree
    let mode = if r.gen_bool(0.5) { Mode::Build } else { Mode::InMemoryBuild };
    let b2 = run_at(&root, &case, mode.clone(), true);
    ctx.evals += 1;
    if !matches!(b2.verdict, Verdict::Watchdog) {
        if !b2.verdict.is_ok() {
            ctx.violation("C07:symlinked-temp:build-failed", format!("building again ({}) after build + clean failed: {}", crate::run::mode_name(&mode), b2.verdict.short()), cj.clone());
        } else if snap(&root).bytes() != s1.bytes() {
            ctx.violation("C07:symlinked-temp:rebuild-differs", format!("building again ({}) after build + clean does not give the tree of the first build", crate::run::mode_name(&mode)), cj.clone());
        }
    }
    ctx.distinct.insert(crate::util::hash_str(&cj.to_string()));
    ctx.scratch.discard(&root);
}

/// txtpp is run from a sub-directory of the project (`docs/`) and a temp directive writes outside
/// that directory (`../build/toc.inc`, or an absolute path): clean removes what build created there
/// as well, and the tree is restored exactly.
fn c07_temp_outside_base(ctx: &mut Ctx, r: &mut StdRng) {
    let parent = ctx.scratch.fresh();
    let base = parent.join("docs");
    let abs_target = parent.join("build/abs.inc");
    let mut files = Files::new();
    files.insert("docs/guide.md.txtpp".into(), format!("guide\n// TXTPP#temp ../build/toc.inc\n// toc line\n\nbetween\n// TXTPP#temp local.inc\n// local\n\nmore\n// TXTPP#temp {}\n// absolute\n\nend\n", abs_target.display()).into_bytes());
    files.insert("build/keep.txt".into(), b"keep\n".to_vec());
    materialize(&parent, &files, &[]);
    set_sentinels(&parent);
    let s0 = snap(&parent);
    let absolute_inputs = r.gen_bool(0.4);
    let inputs: Vec<String> = if absolute_inputs { vec![base.join("guide.md.txtpp").display().to_string()] } else { vec![[".", "guide.md"][r.gen_range(0..2)].to_string()] };
    let threads = [1usize, 2][r.gen_range(0..2)];
    let cj = json!({"kind": "temp-outside-base", "inputs": inputs, "threads": threads});
    let run = |mode: Mode| {
        // (absolute inputs: the process runs from an unrelated directory)
        let (b, cwd) = if absolute_inputs { (parent.join("build"), parent.join("build")) } else { (base.clone(), base.clone()) };
        let cfg = RunCfg { base: b, inputs: inputs.clone(), mode, threads, recursive: false, trailing: true, shell: String::new() };
        run_inproc(&cfg, Spec::Free { delay: None }, Some(&cwd), false)
    };
    let b = run(Mode::Build);
    ctx.evals += 1;
    if !b.verdict.is_ok() {
        if !matches!(b.verdict, Verdict::Watchdog) {
            ctx.violation("C07:temp-outside-base:build-failed", format!("build failed: {}", b.verdict.short()), cj);
        }
        ctx.scratch.discard(&parent);
        return;
    }
    ctx.count("temp_outside_base_cases", 1);
    ctx.count("files_generated_outside_the_base", diff(&s0, &snap(&parent)).created.iter().filter(|p| p.starts_with("build/")).count() as u64);
    let c = run(Mode::Clean);
    ctx.evals += 1;
    if !matches!(c.verdict, Verdict::Watchdog) {
        if !c.verdict.is_ok() {
            ctx.violation("C07:clean-failed", format!("clean failed: {}", c.verdict.short()), cj.clone());
        } else {
            let d = diff(&s0, &snap(&parent));
            if !d.is_empty() {
                ctx.violation(if !d.created.is_empty() { "C07:left-behind" } else { "C07:deleted-non-generated" }, format!("run from docs/ with temp targets outside it: after build + clean left behind {:?}, missing {:?}, changed {:?} {:?}", d.created, d.deleted, d.content, d.touched), cj.clone());
            }
        }
    }
    let _ = std::env::set_current_dir("/");
    ctx.distinct.insert(crate::util::hash_str(&format!("{cj}{}", ctx.evals)));
    ctx.scratch.discard(&parent);
}

fn run_c07(ctx: &mut Ctx) {
    let rounds = ctx.tier.pick(3, 60);
    c07_race(ctx, rounds);
    let mut r = StdRng::seed_from_u64(ctx.shard_seed());
    let n = ctx.tier.pick(400, 20_000);
    let logs = ctx.scratch.root.join("logs");
    let _ = std::fs::create_dir_all(&logs);
    let mlog = logs.join("clean.log");
    let hist = ["build-clean", "build-clean-clean", "clean-only", "build-delete-some-clean", "build-break-clean"];
    for i in 0..n {
        if !ctx.time_left() || ctx.violations.len() > 20 {
            break;
        }
        let case = c07_make(ctx, &mut r, &mlog, i % 3 == 2);
        let h = hist[(i as usize) % hist.len()];
        c07_case(ctx, &case, &mlog, h, &mut r);
        if i < ctx.tier.pick(2, 20) {
            c07_strace(ctx, &case, i as usize * 3 + ctx.shard as usize);
        }
        if i % 40 == 7 {
            c07_symlinked_temp(ctx, &mut r);
        }
        if i % 40 == 23 {
            c07_temp_outside_base(ctx, &mut r);
        }
        if i % 100 == 31 {
            // sources whose names / directories are not valid UTF-8: clean removes their outputs too
            let (findings, cj) = crate::props::rawnames::scenario(ctx, &mut r);
            for f in findings.iter().filter(|f| f.mode == "clean") {
                ctx.violation(if f.class == "naming" { "C07:left-behind" } else { "C07:deleted-non-generated" }, format!("non-UTF-8 names: {}", f.msg), cj.clone());
            }
        }
        if i == 0 {
            ctx.sample(|| json!({"history": h, "sources": model::sources(&case.files)}));
        }
    }
}

fn replay_c07(ctx: &mut Ctx, v: &Value) {
    if v["kind"].as_str() == Some("race") {
        c07_race(ctx, 60);
        return;
    }
    if v["kind"].as_str() == Some("raw-names") {
        let mut r = StdRng::seed_from_u64(3);
        for _ in 0..6 {
            let (findings, cj) = crate::props::rawnames::scenario(ctx, &mut r);
            for f in findings.iter().filter(|f| f.mode == "clean") {
                ctx.violation(if f.class == "naming" { "C07:left-behind" } else { "C07:deleted-non-generated" }, f.msg.clone(), cj.clone());
            }
        }
        return;
    }
    if v["kind"].as_str() == Some("temp-outside-base") {
        let mut r = StdRng::seed_from_u64(7);
        for _ in 0..30 {
            c07_temp_outside_base(ctx, &mut r);
        }
        return;
    }
    if v["kind"].as_str() == Some("symlinked-temp") {
        let mut r = StdRng::seed_from_u64(7);
        for _ in 0..60 {
            c07_symlinked_temp(ctx, &mut r);
        }
        return;
    }
    let case = ProjectCase::from_json(v);
    let logs = ctx.scratch.root.join("logs");
    let _ = std::fs::create_dir_all(&logs);
    let mut r = StdRng::seed_from_u64(1);
    // the marker path is embedded in the recorded sources; reuse it
    let text = files_json(&case.files).to_string();
    let mlog = text.find(">> /").and_then(|i| text[i + 3..].split(['\\', '"', '\n']).next().map(PathBuf::from)).unwrap_or(logs.join("clean.log"));
    if let Some(p) = mlog.parent() {
        let _ = std::fs::create_dir_all(p);
    }
    c07_case(ctx, &case, &mlog, v["history"].as_str().unwrap_or("build-clean"), &mut r);
}

// ------------------------------------------------------------------------------------- C08

pub fn info_c08() -> PropInfo {
    PropInfo {
        id: "C08",
        level: "fault_enumeration",
        rule: "generated successful projects; reference tree = build from no generated files. (1) pre-states: every generated path (outputs and temp targets) independently gets one of {absent, same-length garbage, stale text, empty, random text, prefix of the right content cut at 0 / 1 / inside a multi-byte character / middle / len-1, random bytes incl. invalid UTF-8, right content + garbage}, then Build or InMemoryBuild must succeed and reproduce the reference bytes at every generated path; build twice == build once. (2) crash points through the CLI: the build is aborted at every k-th hook event (task spawn/begin/ready/end, poll, receive and the IO points after output creation, before output completion, before temp write) via TXTPP_VERIF=abort-at=k, and killed by SIGKILL (process group) at random offsets while stretched by hook delays; after each crash a plain build must exit 0 and reproduce the reference tree; histories chain up to 3 crashes and an optional source edit. Non-trivial = a pre-state differing from the reference was planted or the crash landed before the build finished; distinct = distinct (project, pre-state assignment | crash point). Later additions: pre-state rounds under randomly controlled schedules and naming only the top file; edit histories in the same process and directory judged by the model; model-free idempotence over README-ambiguous temp targets; CLI builds with /dev/null and with data on standard input.",
        assumptions: &["D13: generated paths are absent or regular files", "commands deterministic (D7)", "crash = abort()/SIGKILL of the txtpp process group; torn writes inside one write(2) are represented by the prefix pre-states"],
        floor: (300, 5000),
        shards: (16, 16),
        run: run_c08,
        replay: replay_c08,
    }
}

const PRESTATES: [&str; 13] = ["same-text-other-line-ending", "same-length-garbage", "absent", "stale", "empty", "random-text", "prefix-0", "prefix-1", "prefix-in-multibyte", "prefix-mid", "prefix-len-1", "random-bytes-invalid-utf8", "right+garbage"];

fn prestate(kind: &str, good: &[u8], r: &mut StdRng) -> Option<Vec<u8>> {
    let n = good.len();
    match kind {
        "absent" => None,
        "same-text-other-line-ending" => {
            let t = String::from_utf8_lossy(good).to_string();
            Some(if t.contains("\r\n") { t.replace("\r\n", "\n") } else { t.replace('\n', "\r\n") }.into_bytes())
        }
        "same-length-garbage" => Some(good.iter().map(|b| if *b == b'\n' { b'\n' } else { b'#' }).collect()),
        "stale" => Some(b"STALE: previous generation\nline two\n".to_vec()),
        "empty" => Some(vec![]),
        "random-text" => Some((0..r.gen_range(1..60)).map(|_| b"abc \n\tTXTPP#x"[r.gen_range(0..13)]).collect()),
        "prefix-0" => Some(vec![]),
        "prefix-1" => Some(good[..1.min(n)].to_vec()),
        "prefix-in-multibyte" => {
            // cut inside a multi-byte character if there is one, else mid
            match (0..n).find(|&i| good[i] & 0xC0 == 0x80) {
                Some(i) => Some(good[..i].to_vec()),
                None => Some([&good[..n / 2], &[0xC3u8][..]].concat()),
            }
        }
        "prefix-mid" => Some(good[..n / 2].to_vec()),
        "prefix-len-1" => Some(good[..n.saturating_sub(1)].to_vec()),
        "random-bytes-invalid-utf8" => Some(vec![0xff, 0xfe, b'\n', 0xc3, 0x28, 0x00, b'x']),
        _ => Some([good, b"garbage"].concat()),
    }
}

fn c08_prestates(ctx: &mut Ctx, b: &Built, r: &mut StdRng, rounds: usize) {
    let gens = b.generated();
    let good = only(&b.good, &gens);
    for round in 0..rounds {
        let mut assignment: Vec<(String, &str)> = vec![];
        // round-robin guarantees every class gets applied; rest random
        for (i, g) in gens.iter().enumerate() {
            let k = if round < PRESTATES.len() && i == 0 { PRESTATES[round] } else { PRESTATES[r.gen_range(0..PRESTATES.len())] };
            assignment.push((g.clone(), k));
        }
        for mode in [Mode::Build, Mode::InMemoryBuild] {
            let mut planted: Files = Files::new();
            for (g, k) in &assignment {
                let path = b.root.join(g);
                match prestate(k, &good[g], r) {
                    Some(x) => {
                        std::fs::write(&path, &x).unwrap();
                        planted.insert(g.clone(), x);
                    }
                    None => {
                        let _ = std::fs::remove_file(&path);
                    }
                }
                ctx.cover("prestate_classes", &format!("{}:{k}", if b.expect.built.temps.contains_key(g) { "temp" } else { "output" }));
            }
            // half of the rounds under a randomly controlled schedule (arrival orders of worker
            // results matter when leftovers are lying around), and - when the project has
            // dependencies - a third of them naming only the top-level file
            let spec = if round % 2 == 1 { Spec::Controlled { strategy: crate::sched::Strategy::Random(r.gen()), early_poll_at: None, eager_recv: false } } else { Spec::Free { delay: None } };
            let mut run_case = b.case.clone();
            if round % 3 == 2 {
                if let Some(top) = model::sources(&b.case.files).into_iter().find(|s| {
                    let e = model::evaluate(&b.case.files, "/nonexistent", b.case.trailing, &[s.clone()]);
                    e.built.outputs.len() == b.expect.built.outputs.len() && e.built.temps.len() == b.expect.built.temps.len() && e.built.outputs.len() > 1
                }) {
                    run_case.inputs = vec![model::output_of(&top).unwrap()];
                    ctx.count("prestate_rounds_naming_only_the_top_file", 1);
                }
            }
            let o = run_at_spec(&b.root, &run_case, mode.clone(), b.case.trailing, spec);
            ctx.evals += 1;
            ctx.distinct.insert(b.case.hash() ^ crate::util::hash_str(&format!("{assignment:?}{mode:?}")));
            let mut cj = case_json(b, json!({"kind": "prestate", "assignment": assignment.iter().map(|(g, k)| json!([g, k])).collect::<Vec<_>>(), "build_mode": crate::run::mode_name(&mode)}));
            cj.as_object_mut().unwrap().insert("prestate".into(), files_json(&planted));
            if !o.verdict.is_ok() {
                if matches!(o.verdict, Verdict::Watchdog) {
                    ctx.inconclusive("watchdog");
                } else {
                    // signature: mode + class of the first non-UTF-8 leftover (keeps known findings specific)
                    let bad: Vec<String> = assignment.iter().filter(|(g, _)| planted.get(g).map(|x| std::str::from_utf8(x).is_err()).unwrap_or(false)).map(|(g, k)| format!("{}:{k}", if b.expect.built.temps.contains_key(g) { "temp" } else { "output" })).collect();
                    let class = if bad.is_empty() { "valid-utf8-leftover".to_string() } else { format!("non-utf8-leftover:{}", bad.iter().map(|x| x.split(':').next().unwrap()).collect::<BTreeSet<_>>().into_iter().collect::<Vec<_>>().join("+")) };
                    ctx.violation(format!("C08:build-fails-on-leftover:{}:{class}", crate::run::mode_name(&mode)), format!("{:?} from pre-state {assignment:?} failed although the same sources build from a clean tree: {}", mode, o.verdict.short()), cj);
                }
            } else {
                let now = only(&snap(&b.root), &gens);
                for g in &gens {
                    if now.get(g) != good.get(g) {
                        let k = assignment.iter().find(|(x, _)| x == g).map(|x| x.1).unwrap_or("?");
                        ctx.violation(format!("C08:leftover-changes-result:{}:{}", crate::run::mode_name(&mode), if b.expect.built.temps.contains_key(g) { "temp" } else { "output" }), format!("{g} after {:?} from pre-state {k}: got {} expected {}", mode, show(now.get(g).map(|x| &x[..]).unwrap_or(b"<missing>")), show(&good[g])), cj.clone());
                    }
                }
                // idempotence
                let o2 = run_at(&b.root, &b.case, mode.clone(), b.case.trailing);
                ctx.evals += 1;
                let now2 = only(&snap(&b.root), &gens);
                if !o2.verdict.is_ok() || now2 != now {
                    ctx.violation("C08:not-idempotent", format!("second {:?} gave {} and {} the generated files", mode, o2.verdict.short(), if now2 != now { "changed" } else { "kept" }), cj);
                }
            }
            // restore the good tree for the next round
            for (g, x) in &good {
                std::fs::write(b.root.join(g), x).unwrap();
            }
        }
    }
}

fn tree_matches(root: &Path, gens: &[String], good: &Files) -> Vec<String> {
    let now = only(&snap(root), gens);
    gens.iter().filter(|g| now.get(*g) != good.get(*g)).cloned().collect()
}

/// crash points through the CLI binary
fn c08_crashes(ctx: &mut Ctx, b: &Built, r: &mut StdRng, random_kills: usize) {
    let gens = b.generated();
    let good = only(&b.good, &gens);
    let cfg = |mode: Mode| RunCfg { base: b.root.clone(), inputs: vec![".".into()], mode, threads: b.case.threads.max(1), recursive: true, trailing: b.case.trailing, shell: String::new() };
    // how many hook events does a full build have?
    for g in &gens {
        let _ = std::fs::remove_file(b.root.join(g));
    }
    let log = ctx.scratch.root.join("hook.log");
    let _ = std::fs::remove_file(&log);
    let full = run_cli(&b.root, &cfg(Mode::Build).cli_args(), &CliOpts { env: vec![("TXTPP_VERIF".into(), format!("log={}", log.display()))], ..Default::default() });
    ctx.evals += 1;
    if full.code != Some(0) {
        ctx.violation("C08:cli-build-failed", format!("CLI build of a project that builds in-process: {}", full.short()), case_json(b, json!({"kind": "crash"})));
        return;
    }
    let events = std::fs::read_to_string(&log).unwrap_or_default().lines().count() as u64;
    ctx.max("hook_events_of_a_full_build", events);
    let stride = if ctx.tier == crate::fw::Tier::Quick { (events / 12).max(1) } else { 1 };
    let mut k = 1 + r.gen_range(0..stride);
    let mut crash_list: Vec<(String, Option<u64>, Option<u64>)> = vec![]; // (label, abort_at, kill_us)
    while k <= events {
        crash_list.push((format!("abort-at={k}"), Some(k), None));
        k += stride;
    }
    let full_us = full.wall.as_micros() as u64;
    for _ in 0..random_kills {
        crash_list.push(("sigkill".into(), None, Some(r.gen_range(0..full_us.max(2000) * 2))));
    }
    for (label, abort_at, kill_us) in crash_list {
        // pre-state: sometimes from nothing, sometimes from the good tree, sometimes after a source edit
        let from_clean = r.gen_bool(0.5);
        if from_clean {
            for g in &gens {
                let _ = std::fs::remove_file(b.root.join(g));
            }
        }
        let mode = if r.gen_bool(0.3) { Mode::InMemoryBuild } else { Mode::Build };
        let mut env = vec![];
        let mut opts = CliOpts::default();
        if let Some(k) = abort_at {
            env.push(("TXTPP_VERIF".to_string(), format!("abort-at={k}")));
        } else {
            env.push(("TXTPP_VERIF".to_string(), format!("delay={}:{}", r.gen::<u32>(), 3000)));
            opts.kill_after = kill_us.map(std::time::Duration::from_micros);
        }
        opts.env = env;
        let crashed = run_cli(&b.root, &cfg(mode.clone()).cli_args(), &opts);
        ctx.evals += 1;
        let died = crashed.signal.is_some();
        if died {
            ctx.count("crashes_that_landed_mid_build", 1);
            ctx.cover("intermediate_trees", &format!("{:x}", crate::util::hash_files(&only(&snap(&b.root), &gens))));
        } else {
            ctx.count("crash_requests_after_build_finished", 1);
        }
        // repair: plain build
        let rep = run_cli(&b.root, &cfg(Mode::Build).cli_args(), &CliOpts::default());
        ctx.evals += 1;
        let cj = case_json(b, json!({"kind": "crash", "crash": label, "abort_at": abort_at, "kill_us": kill_us, "from_clean": from_clean, "crash_mode": crate::run::mode_name(&mode)}));
        if died {
            ctx.distinct.insert(b.case.hash() ^ crate::util::hash_str(&format!("{label}{kill_us:?}{from_clean}")));
        }
        if rep.code != Some(0) {
            ctx.violation("C08:rebuild-after-crash-fails", format!("build after a crash ({label}) exits {}", rep.short()), cj);
            for (g, x) in &good {
                let _ = std::fs::write(b.root.join(g), x);
            }
            continue;
        }
        let bad = tree_matches(&b.root, &gens, &good);
        if !bad.is_empty() {
            ctx.violation("C08:crash-not-repaired", format!("after crash ({label}) + build, {bad:?} differ from the reference tree"), cj);
        }
    }
}

/// History inside one process, on one directory: the project was built (several times) in `b.root`;
/// now plain included files and one source are edited and the project is built again in place. The
/// result must be what the edited sources prescribe (reference model): nothing remembered from the
/// earlier runs - on disk or in the library's memory - may leak into it.
fn c08_edit_history(ctx: &mut Ctx, b: &Built, r: &mut StdRng) {
    let mut files = b.case.files.clone();
    let mut edited = 0;
    let plain: Vec<String> = files.keys().filter(|k| !model::is_txtpp(k) && k.starts_with("inc_") && !k.contains("big")).cloned().collect();
    for k in plain {
        if r.gen_bool(0.7) {
            let t = String::from_utf8_lossy(&files[&k]).to_string();
            files.insert(k, t.replace("\n", " (edited)\n").replace("\r (edited)", " (edited)\r").into_bytes());
            edited += 1;
        }
    }
    let srcs = model::sources(&files);
    let s = srcs[r.gen_range(0..srcs.len())].clone();
    let mut t = String::from_utf8_lossy(&files[&s]).to_string();
    let le = if t.contains("\r\n") { "\r\n" } else { "\n" };
    if !t.is_empty() && !t.ends_with('\n') {
        t.push_str(le);
    }
    t.push_str("line appended by a later edit");
    t.push_str(le);
    files.insert(s, t.into_bytes());
    let mut case2 = b.case.clone();
    case2.files = files;
    case2.mode = if r.gen_bool(0.5) { Mode::Build } else { Mode::InMemoryBuild };
    let res = run_project_at(ctx, &case2, &b.root, false);
    ctx.count("edit_histories_in_the_same_process_and_directory", 1);
    ctx.count("plain_included_files_edited", edited);
    if res.expect.out_of_domain.is_some() {
        return;
    }
    for (sig, msg) in judge_project(&case2, &res) {
        let mut cj = case2.to_json();
        cj.as_object_mut().unwrap().insert("step".into(), json!("edit-history"));
        cj.as_object_mut().unwrap().insert("files_before_the_edit".into(), files_json(&b.case.files));
        ctx.violation(format!("C08:edit-history:{sig}"), format!("build, edit the sources (included plain files and one source), build again in the same directory and process ({}): {msg}", crate::run::mode_name(&case2.mode)), cj);
        break;
    }
}

/// "Building twice equals building once", judged without any model: whatever the first build of a
/// project does (succeed or fail), the second and third build in the same directory must give the
/// same verdict and the same tree. The projects here use temp targets whose treatment the README
/// leaves open (`name.txtpp.ext`, which is itself a source name), so only this relation is judged.
fn c08_idempotence(ctx: &mut Ctx, r: &mut StdRng) {
    let root = ctx.scratch.fresh();
    let target = ["snippet.txtpp.md", "gen.txtpp.py", "sub/part.txtpp.txt", "plain.tmp"][r.gen_range(0..4)];
    let mut files = Files::new();
    files.insert("doc.md.txtpp".into(), format!("doc\n// TXTPP#temp {target}\n// generated text\n// -TXTPP#run echo from-generated\n\nend\n").into_bytes());
    files.insert("sub/keep.txt".into(), b"k\n".to_vec());
    materialize(&root, &files, &[]);
    let mut case = ProjectCase::simple(files);
    case.threads = [1, 2, 4][r.gen_range(0..3)];
    let mode = if r.gen_bool(0.5) { Mode::Build } else { Mode::InMemoryBuild };
    let mut seen: Vec<(bool, Files)> = vec![];
    for _ in 0..3 {
        let o = run_at(&root, &case, mode.clone(), true);
        ctx.evals += 1;
        if matches!(o.verdict, Verdict::Watchdog) {
            ctx.scratch.discard(&root);
            return;
        }
        seen.push((o.verdict.is_ok(), snap(&root).bytes()));
    }
    ctx.count("idempotence_cases", 1);
    if seen[0] != seen[1] || seen[1] != seen[2] {
        let extra: Vec<&String> = seen[2].1.keys().filter(|k| !seen[0].1.contains_key(*k)).collect();
        ctx.violation("C08:not-idempotent", format!("three builds ({}) of the same sources in one directory: verdicts ok = {:?}; files present after the third build but not after the first: {extra:?}", crate::run::mode_name(&mode), seen.iter().map(|s| s.0).collect::<Vec<_>>()), json!({"kind": "idempotence", "target": target}));
    }
    ctx.distinct.insert(crate::util::hash_str(&format!("idem{target}{}{}", case.threads, ctx.evals)));
    ctx.scratch.discard(&root);
}

/// The result depends on the sources and options only, not on what the process happens to have on
/// its standard input: commands that read stdin (`cat`, `wc -l`, `sort`) see an empty input whether
/// txtpp was started with /dev/null or with a pipe full of data.
fn c08_stdin(ctx: &mut Ctx, r: &mut StdRng) {
    let mut trees: Vec<Files> = vec![];
    let cmd = ["cat", "wc -l", "sort", "cat; echo done"][r.gen_range(0..4)];
    for feed in [None, Some(b"line from the terminal\nanother one\n".to_vec())] {
        let root = ctx.scratch.fresh();
        let mut files = Files::new();
        files.insert("s.txt.txtpp".into(), format!("head\n-TXTPP#run {cmd}\ntail\n").into_bytes());
        materialize(&root, &files, &[]);
        let o = run_cli(&root, &["-q".to_string(), "-j".to_string(), "2".to_string(), ".".to_string()], &CliOpts { stdin_data: feed, timeout: Some(std::time::Duration::from_secs(30)), ..Default::default() });
        ctx.evals += 1;
        ctx.count("cli_runs_with_varied_stdin", 1);
        if o.timed_out {
            ctx.violation("C08:depends-on-stdin", format!("`{cmd}` in a run directive: txtpp did not finish within 30 s (the command is waiting for the process's standard input)"), json!({"kind": "stdin"}));
            ctx.scratch.discard(&root);
            return;
        }
        let mut t = snap(&root).bytes();
        t.insert("<exit>".into(), format!("{:?}", o.code).into_bytes());
        trees.push(t);
        ctx.scratch.discard(&root);
    }
    if trees[0] != trees[1] {
        ctx.violation("C08:depends-on-stdin", format!("the same sources built with /dev/null and with data on standard input give different results (`{cmd}`): {} vs {}", show(trees[0].get("s.txt").map(|x| &x[..]).unwrap_or(b"")), show(trees[1].get("s.txt").map(|x| &x[..]).unwrap_or(b""))), json!({"kind": "stdin"}));
    }
    ctx.distinct.insert(crate::util::hash_str(&format!("stdin{cmd}{}", ctx.evals)));
}

fn run_c08(ctx: &mut Ctx) {
    let mut r = StdRng::seed_from_u64(ctx.shard_seed());
    let n = ctx.tier.pick(8, 300);
    let opts = GenOpts { error_pct: 0, ..GenOpts::default() };
    for i in 0..n {
        if !ctx.time_left() || ctx.violations.len() > 30 {
            break;
        }
        let Some(b) = build_good(ctx, &mut r, &opts, None) else { continue };
        if b.temps().is_empty() && i % 2 == 0 {
            ctx.scratch.discard(&b.root);
            continue;
        }
        c08_prestates(ctx, &b, &mut r, ctx.tier.pick(13, 26));
        if i % ctx.tier.pick(4, 3) == 0 {
            c08_crashes(ctx, &b, &mut r, ctx.tier.pick(4, 24));
        }
        c08_edit_history(ctx, &b, &mut r);
        c08_idempotence(ctx, &mut r);
        if i % 4 == 1 {
            c08_stdin(ctx, &mut r);
        }
        if i == 0 {
            ctx.sample(|| json!({"sources": model::sources(&b.case.files), "generated_paths": b.generated(), "prestate_classes": PRESTATES}));
        }
        ctx.scratch.discard(&b.root);
    }
}

fn replay_c08(ctx: &mut Ctx, v: &Value) {
    if v["kind"].as_str() == Some("stdin") {
        let mut r = StdRng::seed_from_u64(8);
        for _ in 0..8 {
            c08_stdin(ctx, &mut r);
        }
        return;
    }
    if v["kind"].as_str() == Some("idempotence") {
        let mut r = StdRng::seed_from_u64(8);
        for _ in 0..24 {
            c08_idempotence(ctx, &mut r);
        }
        return;
    }
    if v["step"].as_str() == Some("edit-history") {
        // build the project as it was before the edit, then the recorded (edited) one in place
        let case2 = ProjectCase::from_json(v);
        let mut case1 = case2.clone();
        case1.files = crate::util::files_from_json(&v["files_before_the_edit"]);
        case1.mode = Mode::Build;
        let root = ctx.scratch.fresh();
        let first = run_project_at(ctx, &case1, &root, false);
        println!("  build before the edit: {}", first.outcome.verdict.short());
        let res = run_project_at(ctx, &case2, &root, false);
        println!("  build after the edit: {}", res.outcome.verdict.short());
        for (sig, msg) in judge_project(&case2, &res) {
            ctx.violation(format!("C08:edit-history:{sig}"), msg, v.clone());
        }
        return;
    }
    let case = ProjectCase::from_json(v);
    let mut clean_case = case.clone();
    clean_case.prestate = Files::new();
    let root = ctx.scratch.fresh();
    let res = run_project_at(ctx, &clean_case, &root, false);
    let b = Built { case: clean_case, root: root.clone(), expect: res.expect, good: res.after };
    let gens = b.generated();
    let good = only(&b.good, &gens);
    if v["kind"].as_str() == Some("prestate") {
        for g in &gens {
            let _ = std::fs::remove_file(root.join(g));
        }
        materialize(&root, &case.prestate, &[]);
        let mode = crate::run::mode_from(v["build_mode"].as_str().unwrap_or("build"));
        let o = run_at(&root, &b.case, mode, b.case.trailing);
        println!("  build from recorded pre-state: {}", o.verdict.short());
        if !o.verdict.is_ok() {
            ctx.violation("C08:build-fails-on-leftover", o.verdict.short(), v.clone());
        } else {
            let bad = tree_matches(&root, &gens, &good);
            if !bad.is_empty() {
                ctx.violation("C08:leftover-changes-result", format!("{bad:?} differ"), v.clone());
            }
        }
    } else {
        let mut r = StdRng::seed_from_u64(7);
        c08_crashes(ctx, &b, &mut r, 50);
    }
}

// ------------------------------------------------------------------------------------- C09

pub fn info_c09() -> PropInfo {
    PropInfo {
        id: "C09",
        level: "exploration",
        rule: "generated successful projects (with dependencies rebuilt in memory and then included) x histories of 1-5 steps over {edit a source, tamper an output, tamper a temp file, delete an output, delete a temp file, build, needed-build, verify}; then the judged step: the pre-state tree is materialised twice at the same path and built once with InMemoryBuild and once with Build: verdicts and every output/temp byte must be equal; every generated file that was already correct before the needed-build keeps inode and sentinel mtime, every stale or missing one is brought up to date; in build and verify mode every already-correct temp file keeps inode and mtime. A CLI sample checks the -N flag mapping under strace (no write-open of an up-to-date output). Non-trivial = the history leaves at least one generated file stale or missing and at least one up to date; distinct = distinct (project, history). Later additions: outputs of 9 (17, 33) MiB; output paths that are dangling links, links to stale files, or hard links shared with another name; a stale temp file under verify.",
        assumptions: &["sentinel mtimes make a rewrite visible independently of timestamp granularity", "commands deterministic"],
        floor: (150, 3000),
        shards: (16, 16),
        run: run_c09,
        replay: replay_c09,
    }
}

fn c09_project(ctx: &mut Ctx, b: &Built, r: &mut StdRng, histories: usize) {
    let gens = b.generated();
    let outs = b.outputs();
    let temps = b.temps();
    let srcs = model::sources(&b.case.files);
    for _ in 0..histories {
        // start from the good tree with original sources
        ctx.scratch.reuse(&b.root);
        materialize(&b.root, &b.case.files, &b.case.dirs);
        materialize(&b.root, &only(&b.good, &gens), &[]);
        let steps = r.gen_range(1..=5);
        let mut hist: Vec<String> = vec![];
        for _ in 0..steps {
            match r.gen_range(0..10) {
                9 => {
                    // break a source: a tag that is never used (build and needed must both fail)
                    let s = &srcs[r.gen_range(0..srcs.len())];
                    let p = b.root.join(s);
                    let mut t = std::fs::read(&p).unwrap_or_default();
                    let le: &[u8] = if model::split(&String::from_utf8_lossy(&t)).1 == "\r\n" { b"\r\n" } else { b"\n" };
                    if !t.is_empty() && !t.ends_with(b"\n") {
                        t.extend_from_slice(le);
                    }
                    t.extend_from_slice(b"<!--e TXTPP#tag NEVERUSED");
                    t.extend_from_slice(le);
                    if r.gen_bool(0.5) {
                        t.extend_from_slice(b"<!--e TXTPP#write stored but never used");
                        t.extend_from_slice(le);
                    }
                    std::fs::write(&p, t).unwrap();
                    hist.push(format!("break-with-unused-tag {s}"));
                }
                0 => {
                    let s = &srcs[r.gen_range(0..srcs.len())];
                    let p = b.root.join(s);
                    let mut t = std::fs::read(&p).unwrap_or_default();
                    let le: &[u8] = if model::split(&String::from_utf8_lossy(&t)).1 == "\r\n" { b"\r\n" } else { b"\n" };
                    if !t.is_empty() && !t.ends_with(b"\n") {
                        t.extend_from_slice(le);
                    }
                    t.extend_from_slice(b"edited line");
                    t.extend_from_slice(le);
                    std::fs::write(&p, t).unwrap();
                    hist.push(format!("edit {s}"));
                }
                1 | 2 => {
                    let o = &outs[r.gen_range(0..outs.len())];
                    let p = b.root.join(o);
                    let mut t = std::fs::read(&p).unwrap_or_default();
                    if r.gen_bool(0.5) || t.is_empty() {
                        t.extend_from_slice(b"tampered");
                    } else {
                        let n = t.len();
                        t.truncate(n / 2);
                    }
                    std::fs::write(&p, t).unwrap();
                    hist.push(format!("tamper-output {o}"));
                }
                3 if !temps.is_empty() => {
                    let o = &temps[r.gen_range(0..temps.len())];
                    let mut t = std::fs::read(b.root.join(o)).unwrap_or_default();
                    if r.gen_bool(0.5) && !t.is_empty() {
                        // same length, different content
                        let i = r.gen_range(0..t.len());
                        t[i] = if t[i] == b'#' { b'%' } else { b'#' };
                        hist.push(format!("tamper-temp-same-length {o}"));
                    } else {
                        t.extend_from_slice(b"tampered temp");
                        hist.push(format!("tamper-temp {o}"));
                    }
                    std::fs::write(b.root.join(o), t).unwrap();
                }
                4 => {
                    let o = &outs[r.gen_range(0..outs.len())];
                    let _ = std::fs::remove_file(b.root.join(o));
                    hist.push(format!("delete-output {o}"));
                }
                5 if !temps.is_empty() => {
                    let o = &temps[r.gen_range(0..temps.len())];
                    let _ = std::fs::remove_file(b.root.join(o));
                    hist.push(format!("delete-temp {o}"));
                }
                6 => {
                    let _ = run_at(&b.root, &b.case, Mode::Build, b.case.trailing);
                    ctx.evals += 1;
                    hist.push("build".into());
                }
                7 => {
                    let _ = run_at(&b.root, &b.case, Mode::InMemoryBuild, b.case.trailing);
                    ctx.evals += 1;
                    hist.push("needed".into());
                }
                _ => {
                    let _ = run_at(&b.root, &b.case, Mode::Verify, b.case.trailing);
                    ctx.evals += 1;
                    hist.push("verify".into());
                }
            }
        }
        // the pre-state of the judged step
        let pre = snap(&b.root);
        let pre_files = pre.bytes();
        // reference: plain build from this pre-state
        let rb = run_at(&b.root, &b.case, Mode::Build, b.case.trailing);
        ctx.evals += 1;
        let ref_tree = snap(&b.root);
        // what "up to date" means: the same sources built from a tree without any generated file
        ctx.scratch.reuse(&b.root);
        let sources_only: Files = pre_files.iter().filter(|(k, _)| !gens.contains(k)).map(|(k, v)| (k.clone(), v.clone())).collect();
        materialize(&b.root, &sources_only, &b.case.dirs);
        let cb = run_at(&b.root, &b.case, Mode::Build, b.case.trailing);
        ctx.evals += 1;
        let clean_tree = snap(&b.root);
        // same pre-state again, same path
        ctx.scratch.reuse(&b.root);
        materialize(&b.root, &pre_files, &b.case.dirs);
        set_sentinels(&b.root);
        let pre2 = snap(&b.root);
        let nb = run_at(&b.root, &b.case, Mode::InMemoryBuild, b.case.trailing);
        ctx.evals += 1;
        let n_tree = snap(&b.root);
        let cj = {
            let mut c = b.case.clone();
            c.files = pre_files.iter().filter(|(k, _)| !gens.contains(k)).map(|(k, v)| (k.clone(), v.clone())).collect();
            c.prestate = pre_files.iter().filter(|(k, _)| gens.contains(k)).map(|(k, v)| (k.clone(), v.clone())).collect();
            let mut v = c.to_json();
            v.as_object_mut().unwrap().insert("history".into(), json!(hist));
            v
        };
        if matches!(rb.verdict, Verdict::Watchdog) || matches!(nb.verdict, Verdict::Watchdog) {
            ctx.inconclusive("watchdog");
            continue;
        }
        if rb.verdict.is_ok() != nb.verdict.is_ok() {
            ctx.violation(
                if rb.verdict.is_ok() { "C09:needed-fails-where-build-succeeds" } else { "C09:needed-succeeds-where-build-fails" },
                format!("history {hist:?}: build {} / needed {}", rb.verdict.short(), nb.verdict.short()),
                cj.clone(),
            );
            continue;
        }
        if !rb.verdict.is_ok() {
            ctx.count("histories_where_both_fail", 1);
            continue;
        }
        let mut stale = 0;
        let mut fresh = 0;
        for g in &gens {
            let want = ref_tree.files.get(g);
            let got = n_tree.files.get(g);
            if cb.verdict.is_ok() {
                if let Some(c) = clean_tree.files.get(g) {
                    if got.map(|e| &e.bytes) != Some(&c.bytes) {
                        ctx.violation(format!("C09:stale-not-brought-up-to-date:{}", if temps.contains(g) { "temp" } else { "output" }), format!("history {hist:?}: after the needed-build {g} is {} but the same sources built from scratch give {}", show(got.map(|e| &e.bytes[..]).unwrap_or(b"<missing>")), show(&c.bytes)), cj.clone());
                        continue;
                    }
                }
            }
            if want.map(|e| &e.bytes) != got.map(|e| &e.bytes) {
                ctx.violation(format!("C09:needed-differs-from-build:{}", if temps.contains(g) { "temp" } else { "output" }), format!("history {hist:?}: {g} after needed {} / after build {}", show(got.map(|e| &e.bytes[..]).unwrap_or(b"<missing>")), show(want.map(|e| &e.bytes[..]).unwrap_or(b"<missing>"))), cj.clone());
                continue;
            }
            let was = pre2.files.get(g);
            let already_correct = was.map(|e| &e.bytes) == want.map(|e| &e.bytes) && was.is_some();
            if already_correct {
                fresh += 1;
                if was != got {
                    ctx.violation(format!("C09:needed-rewrote-unchanged:{}", if temps.contains(g) { "temp" } else { "output" }), format!("history {hist:?}: {g} was already correct but needed-build changed its inode/mtime"), cj.clone());
                }
            } else {
                stale += 1;
            }
        }
        if stale > 0 && fresh > 0 {
            ctx.distinct.insert(b.case.hash() ^ crate::util::hash_str(&format!("{hist:?}")));
            ctx.count("histories_with_partially_stale_tree", 1);
        }
        // temp skip-if-same in build and verify mode, on the now up-to-date tree
        for mode in [Mode::Build, Mode::Verify] {
            set_sentinels(&b.root);
            let t0 = snap(&b.root);
            let o = run_at(&b.root, &b.case, mode.clone(), b.case.trailing);
            ctx.evals += 1;
            let t1 = snap(&b.root);
            if !o.verdict.is_ok() {
                ctx.violation(format!("C09:{}-fails-on-up-to-date-tree", crate::run::mode_name(&mode)), format!("history {hist:?}: {:?} on the tree a needed-build just produced: {}", mode, o.verdict.short()), cj.clone());
                break;
            }
            for t in &temps {
                if t0.files.get(t) != t1.files.get(t) {
                    ctx.violation(format!("C09:temp-rewritten-in-{}", crate::run::mode_name(&mode)), format!("history {hist:?}: temp file {t} was already correct but {:?} changed its inode/mtime/bytes", mode), cj.clone());
                }
            }
        }
        // ... and a temp file that exists but is stale is brought up to date by verify as well
        if !temps.is_empty() {
            let t = &temps[r.gen_range(0..temps.len())];
            let good = std::fs::read(b.root.join(t)).unwrap_or_default();
            let mut bad = good.clone();
            if r.gen_bool(0.5) || bad.is_empty() {
                bad.extend_from_slice(b"stale line left by an earlier run\n");
            } else {
                let k = bad.len() / 2;
                bad[k] = if bad[k] == b'x' { b'y' } else { b'x' };
            }
            let _ = std::fs::write(b.root.join(t), &bad);
            let o = run_at(&b.root, &b.case, Mode::Verify, b.case.trailing);
            ctx.evals += 1;
            ctx.count("verify_runs_over_a_stale_temp_file", 1);
            if !matches!(o.verdict, Verdict::Watchdog) {
                let now = std::fs::read(b.root.join(t)).unwrap_or_default();
                if now != good {
                    ctx.violation("C09:stale-not-brought-up-to-date:temp", format!("history {hist:?}: temp file {t} existed with stale content; after verify ({}) it is {} instead of {}", o.verdict.short(), show(&now), show(&good)), cj.clone());
                } else if !o.verdict.is_ok() {
                    ctx.violation("C09:verify-fails-on-up-to-date-tree", format!("history {hist:?}: every output is up to date and only temp file {t} was stale: verify failed ({})", o.verdict.short()), cj.clone());
                }
            }
            let _ = std::fs::write(b.root.join(t), &good);
        }
    }
}

fn c09_cli(ctx: &mut Ctx, b: &Built) {
    // -N on an up-to-date tree under strace: no write-open of any generated file
    let prefix = ctx.scratch.root.join("strace").join("t");
    let _ = std::fs::remove_dir_all(prefix.parent().unwrap());
    let _ = std::fs::create_dir_all(prefix.parent().unwrap());
    ctx.scratch.reuse(&b.root);
    materialize(&b.root, &b.case.files, &b.case.dirs);
    materialize(&b.root, &only(&b.good, &b.generated()), &[]);
    set_sentinels(&b.root);
    let s0 = snap(&b.root);
    let cfg = RunCfg { base: b.root.clone(), inputs: vec![".".into()], mode: Mode::InMemoryBuild, threads: 2, recursive: true, trailing: b.case.trailing, shell: String::new() };
    let o = run_cli(&b.root, &cfg.cli_args(), &CliOpts { strace_prefix: Some(prefix.clone()), ..Default::default() });
    ctx.evals += 1;
    ctx.count("straced_cli_runs", 1);
    let s1 = snap(&b.root);
    let tr = crate::sys::parse_strace(prefix.parent().unwrap(), &b.root);
    ctx.count("syscalls_classified", tr.lines_by_txtpp as u64);
    if o.code != Some(0) {
        ctx.violation("C09:cli-needed-failed", o.short(), case_json(b, json!({"kind": "cli"})));
        return;
    }
    let d = diff(&s0, &s1);
    if !d.is_empty() {
        ctx.violation("C09:cli-needed-touched-up-to-date-tree", format!("txtpp -N on an up-to-date tree changed {:?} {:?} {:?}", d.content, d.touched, d.created), case_json(b, json!({"kind": "cli"})));
    }
    for w in &tr.writes {
        if b.generated().iter().any(|g| b.root.join(g) == *w) {
            ctx.violation("C09:cli-needed-write-open", format!("txtpp -N opened the up-to-date file {} for writing", w.display()), case_json(b, json!({"kind": "cli"})));
        }
    }
}

/// Outputs of 9, 17 and 33 MiB (an included plain file of that size): the only-if-needed mode must
/// leave an up-to-date output of any size alone (inode, modification time), bring a stale one up to
/// date, and give the bytes of a normal build.
fn c09_big_output(ctx: &mut Ctx, mib: usize) {
    let root = ctx.scratch.fresh();
    let line = "0123456789abcdef0123456789abcdef0123456789abcdef0123456789abcde\n"; // 64 bytes
    let blob = line.repeat(mib * 16 * 1024);
    let mut files = Files::new();
    files.insert("blob.dat".into(), blob.clone().into_bytes());
    files.insert("big.txt.txtpp".into(), b"head\n-TXTPP#include blob.dat\ntail\n".to_vec());
    files.insert("small.txt.txtpp".into(), b"small\n".to_vec());
    materialize(&root, &files, &[]);
    let case = ProjectCase::simple(files);
    let cj = json!({"kind": "big-output", "mib": mib});
    let b = run_at(&root, &case, Mode::Build, true);
    ctx.evals += 1;
    ctx.count("big_output_cases", 1);
    let want = format!("head\n{blob}tail\n").into_bytes();
    if !b.verdict.is_ok() || std::fs::read(root.join("big.txt")).unwrap_or_default() != want {
        if !matches!(b.verdict, Verdict::Watchdog) {
            ctx.violation("C09:big-output:build", format!("plain build of a {mib} MiB output: verdict {}, bytes {}", b.verdict.short(), if b.verdict.is_ok() { "differ" } else { "n/a" }), cj);
        }
        ctx.scratch.discard(&root);
        return;
    }
    set_sentinels(&root);
    let s0 = snap(&root);
    let n1 = run_at(&root, &case, Mode::InMemoryBuild, true);
    ctx.evals += 1;
    let s1 = snap(&root);
    if !matches!(n1.verdict, Verdict::Watchdog) {
        let d = diff(&s0, &s1);
        if !n1.verdict.is_ok() {
            ctx.violation("C09:needed-verdict-differs", format!("needed-build over an up-to-date {mib} MiB output failed: {}", n1.verdict.short()), cj.clone());
        } else if !d.is_empty() {
            ctx.violation("C09:needed-rewrote-up-to-date:output", format!("needed-build rewrote or touched an output that was already correct ({mib} MiB): changed {:?}, touched {:?}", d.content, d.touched), cj.clone());
        }
    }
    // stale: one byte in the middle differs
    let mut stale = want.clone();
    let k = stale.len() / 2;
    stale[k] ^= 1;
    let _ = std::fs::write(root.join("big.txt"), &stale);
    let n2 = run_at(&root, &case, Mode::InMemoryBuild, true);
    ctx.evals += 1;
    if !matches!(n2.verdict, Verdict::Watchdog) && (!n2.verdict.is_ok() || std::fs::read(root.join("big.txt")).unwrap_or_default() != want) {
        ctx.violation("C09:stale-not-brought-up-to-date:output", format!("needed-build over a {mib} MiB output with one changed byte: verdict {}, output {}", n2.verdict.short(), if n2.verdict.is_ok() { "still stale" } else { "n/a" }), cj.clone());
    }
    ctx.distinct.insert(crate::util::hash_str(&cj.to_string()));
    ctx.scratch.discard(&root);
}

/// An output path that is a symbolic link whose target does not exist yet (`src/a.txt ->
/// ../dist/a.txt`): a normal build creates the file behind the link; the only-if-needed mode must
/// succeed in exactly the same way and leave the same bytes.
fn c09_dangling_output_link(ctx: &mut Ctx, r: &mut StdRng) {
    let mut results: Vec<(bool, Option<Vec<u8>>)> = vec![];
    let relative = r.gen_bool(0.5);
    // 0: the link target does not exist yet; 1: it exists with stale content (both modes write
    // through the link and keep it a link); 2: the output path is a hard link shared with
    // dist/a.txt (both names must show the fresh content afterwards)
    let shape = r.gen_range(0..3);
    for mode in [Mode::Build, Mode::InMemoryBuild] {
        let root = ctx.scratch.fresh();
        let mut files = Files::new();
        files.insert("src/a.txt.txtpp".into(), b"a head\n-TXTPP#run echo generated\na tail\n".to_vec());
        files.insert("src/b.txtpp.md".into(), b"b\n".to_vec());
        materialize(&root, &files, &["dist".to_string()]);
        let target = if relative { "../dist/a.txt".to_string() } else { root.join("dist/a.txt").display().to_string() };
        if shape >= 1 {
            let _ = std::fs::write(root.join("dist/a.txt"), b"stale content of an earlier build\n");
        }
        if shape == 2 {
            let _ = std::fs::hard_link(root.join("dist/a.txt"), root.join("src/a.txt"));
        } else {
            let _ = std::os::unix::fs::symlink(&target, root.join("src/a.txt"));
        }
        let mut case = ProjectCase::simple(files);
        case.inputs = vec![["src", ".", "src/a.txt.txtpp"][r.gen_range(0..3)].to_string()];
        let o = run_at(&root, &case, mode, true);
        ctx.evals += 1;
        if matches!(o.verdict, Verdict::Watchdog) {
            ctx.scratch.discard(&root);
            return;
        }
        let mut seen = std::fs::read(root.join("dist/a.txt")).ok();
        if shape != 2 && !std::fs::symlink_metadata(root.join("src/a.txt")).map(|m| m.file_type().is_symlink()).unwrap_or(false) {
            // the output path stopped being a link: mark the observation so that the modes differ visibly
            seen = seen.map(|mut b| {
                b.extend_from_slice(b"<output path is no longer a symbolic link>");
                b
            });
        }
        results.push((o.verdict.is_ok(), seen));
        ctx.scratch.discard(&root);
    }
    ctx.count("dangling_output_link_cases", 1);
    let cj = json!({"kind": "dangling-output-link", "relative": relative, "shape": shape});
    if results[0].0 != results[1].0 {
        ctx.violation("C09:needed-verdict-differs", format!("output path is a dangling symbolic link: normal build ok={}, needed-build ok={}", results[0].0, results[1].0), cj.clone());
    } else if results[0].1 != results[1].1 {
        ctx.violation("C09:needed-differs-from-build:output", "output path is a dangling symbolic link: the file behind the link differs between a normal build and a needed-build".to_string(), cj.clone());
    }
    ctx.distinct.insert(crate::util::hash_str(&format!("{cj}{}", ctx.evals)));
}

fn run_c09(ctx: &mut Ctx) {
    for (k, mib) in [9usize, 17, 33].iter().enumerate() {
        if ctx.claim(9_100_000 + k as u64) && (ctx.tier == crate::fw::Tier::Thorough || *mib == 9) {
            c09_big_output(ctx, *mib);
        }
    }
    let mut r = StdRng::seed_from_u64(ctx.shard_seed());
    for _ in 0..3 {
        c09_dangling_output_link(ctx, &mut r);
    }
    let n = ctx.tier.pick(25, 400);
    // (a target written by two temp directives of one run is rewritten by every run by construction:
    // "already correct, hence untouched" is only meaningful for targets written once)
    let opts = GenOpts { error_pct: 0, temp_twice: false, ..GenOpts::default() };
    for i in 0..n {
        if !ctx.time_left() || ctx.violations.len() > 20 {
            break;
        }
        let Some(b) = build_good(ctx, &mut r, &opts, None) else { continue };
        c09_project(ctx, &b, &mut r, ctx.tier.pick(10, 20));
        if i < ctx.tier.pick(1, 10) {
            c09_cli(ctx, &b);
        }
        if i == 0 {
            ctx.sample(|| json!({"sources": model::sources(&b.case.files), "generated": b.generated(), "history_steps": ["edit", "tamper-output", "tamper-temp", "delete-output", "delete-temp", "build", "needed", "verify"]}));
        }
        ctx.scratch.discard(&b.root);
    }
}

fn replay_c09(ctx: &mut Ctx, v: &Value) {
    if v["kind"].as_str() == Some("big-output") {
        c09_big_output(ctx, v["mib"].as_u64().unwrap_or(9) as usize);
        return;
    }
    if v["kind"].as_str() == Some("dangling-output-link") {
        let mut r = StdRng::seed_from_u64(9);
        for _ in 0..10 {
            c09_dangling_output_link(ctx, &mut r);
        }
        return;
    }
    // the recorded case holds the pre-state of the judged step
    let case = ProjectCase::from_json(v);
    let root = ctx.scratch.fresh();
    let mut outcomes = vec![];
    for mode in [Mode::Build, Mode::InMemoryBuild] {
        ctx.scratch.reuse(&root);
        materialize(&root, &case.files, &case.dirs);
        materialize(&root, &case.prestate, &[]);
        let o = run_at(&root, &case, mode, case.trailing);
        outcomes.push((o.verdict.clone(), snap(&root).bytes()));
    }
    println!("  build: {} / needed: {}", outcomes[0].0.short(), outcomes[1].0.short());
    if outcomes[0].0.is_ok() != outcomes[1].0.is_ok() {
        ctx.violation("C09:verdicts-differ", format!("build {} needed {}", outcomes[0].0.short(), outcomes[1].0.short()), v.clone());
    } else if outcomes[0].1 != outcomes[1].1 {
        ctx.violation("C09:needed-differs-from-build", "trees differ", v.clone());
    }
}

// ------------------------------------------------------------------------------------- C10

pub fn info_c10() -> PropInfo {
    PropInfo {
        id: "C10",
        level: "exploration",
        rule: "generated projects (successful and failing) with decoy files next to every source and output (x.bak, x~, truncated names, the bare stem, x.txtpp.orig.bak, same names in sub-directories; every decoy name is first checked not to be a txtpp source itself) and outputs of sources that are NOT processed (non-recursive runs, file inputs) pre-planted; each of the four modes is run on the tree (build / needed / verify / clean; after a build for the latter two in half of the cases) with recursive on/off and directory / file / mixed inputs; the snapshot diff (bytes, inode, mtime, directories) must be a subset of: outputs of the processed sources and their .txtpp dependencies plus targets named by their temp directives; verify: outputs untouched; clean: nothing created; no directory created or removed. A CLI sample under strace checks the same on the syscall write-set (catches write-then-restore). Non-trivial = the run changed at least one path or failed; distinct = distinct (project, mode, inputs). Later additions: non-UTF-8 names with decoys at the lossy spellings of every output; output paths that are symbolic links (verify, clean); temp paths with a backslash and verbatim includes of .txtpp files (literal-paths scenario); a temp directive naming an existing source; allowed temp targets computed from a lenient parse (directive lines only).",
        assumptions: &["allowed set: outputs of the sources selected by the harness's own reading of the input rule, all sources they reference through include/after lines (superset), and every `TXTPP#temp X` target in them (superset)"],
        floor: (300, 5000),
        shards: (16, 16),
        run: run_c10,
        replay: replay_c10,
    }
}

/// sources selected by the inputs (harness's own rule), relative paths
pub fn selected_sources(files: &Files, inputs: &[String], recursive: bool) -> Option<BTreeSet<String>> {
    let mut sel = BTreeSet::new();
    let is_dir = |p: &str| p.is_empty() || files.keys().any(|k| k.starts_with(&format!("{p}/")));
    for inp in inputs {
        let p = model::norm_path("", inp)?;
        if is_dir(&p) {
            for k in files.keys() {
                if !model::is_txtpp(k) {
                    continue;
                }
                let d = model::dir_of(k);
                let inside = if p.is_empty() { true } else { d == p || d.starts_with(&format!("{p}/")) };
                if inside && (recursive || d == p) {
                    sel.insert(k.clone());
                }
            }
        } else if model::is_txtpp(&p) {
            if !files.contains_key(&p) {
                return None;
            }
            sel.insert(p);
        } else {
            let w = model::World { root: "", files, trailing: true };
            let ev = model::Eval::new(&w);
            sel.insert(ev.source_of(&p)?);
        }
    }
    Some(sel)
}

fn allowed_paths(files: &Files, selected: &BTreeSet<String>, follow_deps: bool) -> BTreeSet<String> {
    let w = model::World { root: "", files, trailing: true };
    let ev = model::Eval::new(&w);
    let mut todo: Vec<String> = selected.iter().cloned().collect();
    let mut seen: BTreeSet<String> = BTreeSet::new();
    let mut allowed = BTreeSet::new();
    while let Some(src) = todo.pop() {
        if !seen.insert(src.clone()) {
            continue;
        }
        if let Some(o) = model::output_of(&src) {
            allowed.insert(o);
        }
        let text = String::from_utf8_lossy(&files[&src]).to_string();
        let dir = model::dir_of(&src).to_string();
        // temp targets: first arguments of the lines that *are* temp directives (a `TXTPP#temp x`
        // text inside another directive's block is an argument line, not a directive); erroneous
        // prefix-less lines are skipped the way clean mode skips them
        for it in model::parse_lenient(&model::split(&text).0) {
            if let model::Item::Dir(d) = it {
                if d.name == "temp" && !d.args.is_empty() {
                    if let Some(p) = model::norm_path(&dir, &d.args[0]) {
                        // a `.txtpp` file is never a legitimate temp target: sources keep their bytes
                        if !model::is_txtpp(&p) {
                            allowed.insert(p);
                        }
                    }
                }
            }
        }
        for l in text.lines() {
            if follow_deps {
                for key in ["TXTPP#include ", "TXTPP#after "] {
                    if let Some(i) = l.find(key) {
                        if let Some(p) = model::norm_path(&dir, l[i + key.len()..].trim()) {
                            if let Some(s) = ev.source_of(&p) {
                                todo.push(s);
                            }
                        }
                    }
                }
            }
        }
    }
    allowed
}

fn decoys_for(files: &Files) -> Files {
    let mut d = Files::new();
    let mut add = |p: String| {
        if !model::is_txtpp(&p) && !files.contains_key(&p) {
            d.insert(p, b"decoy: must stay untouched\n".to_vec());
        }
    };
    for s in model::sources(files) {
        let o = model::output_of(&s).unwrap();
        add(format!("{o}.bak"));
        add(format!("{o}~"));
        if o.chars().count() > 1 {
            let mut t = o.clone();
            t.pop();
            add(t);
        }
        let stem = o.rsplit('/').next().unwrap().split('.').next().unwrap().to_string();
        let dir = model::dir_of(&o);
        add(if dir.is_empty() { stem.clone() } else { format!("{dir}/{stem}") });
        add(format!("{s}.orig.bak"));
        // names a careless "write to a scratch file, then rename" would pick
        add(format!("{o}.tmp"));
        add(format!("{o}.new"));
        let base = o.rsplit('/').next().unwrap();
        let stem_all = match base.rfind('.') {
            Some(i) if i > 0 => &base[..i],
            _ => base,
        };
        add(if dir.is_empty() { format!("{stem_all}.tmp") } else { format!("{dir}/{stem_all}.tmp") });
        add(if dir.is_empty() { format!(".{base}.tmp") } else { format!("{dir}/.{base}.tmp") });
        add(format!("other/{}", o.rsplit('/').next().unwrap()));
        add(format!("{o}.d/keep.txt"));
    }
    d
}

fn c10_case(ctx: &mut Ctx, files: &Files, trailing: bool, mode: Mode, inputs: Vec<String>, recursive: bool, prebuild: bool, threads: usize) {
    // D7: a command outside the vocabulary (typically a run block that swallowed following lines,
    // possibly with a shell redirection in them) may write anywhere: not judged
    if model::evaluate(files, "/nonexistent", trailing, &model::sources(files)).out_of_domain.is_some() {
        ctx.count("out_of_domain", 1);
        return;
    }
    let root = ctx.scratch.fresh();
    let mut all = files.clone();
    let decoys = decoys_for(files);
    all.extend(decoys.clone());
    // outputs of every source pre-planted (so that unprocessed ones are visible if touched)
    for s in model::sources(files) {
        let o = model::output_of(&s).unwrap();
        all.entry(o).or_insert_with(|| b"pre-existing output of a source that may not be processed\n".to_vec());
    }
    materialize(&root, &all, &[]);
    // a symbolic link to a sub-directory: followed only by recursive scans (then it names a
    // directory that is scanned anyway)
    let _ = std::os::unix::fs::symlink("sub", root.join("lnk_sub"));
    let mut case = ProjectCase::simple(files.clone());
    case.trailing = trailing;
    case.threads = threads;
    if prebuild {
        let _ = run_at(&root, &case, Mode::Build, trailing);
        ctx.evals += 1;
    }
    if prebuild && threads % 2 == 0 {
        // a stale output makes verify fail (and needed rewrite exactly that file)
        for s in model::sources(files) {
            let o = root.join(model::output_of(&s).unwrap());
            if let Ok(mut b) = std::fs::read(&o) {
                b.extend_from_slice(b"stale tail\n");
                let _ = std::fs::write(&o, b);
                break;
            }
        }
    }
    case.inputs = inputs.clone();
    case.recursive = recursive;
    case.mode = mode.clone();
    set_sentinels(&root);
    let s0 = snap(&root);
    let o = run_at(&root, &case, mode.clone(), trailing);
    ctx.evals += 1;
    let s1 = snap(&root);
    let d = diff(&s0, &s1);
    let mut cj = case.to_json();
    cj.as_object_mut().unwrap().insert("prebuild".into(), json!(prebuild));
    let sel = selected_sources(files, &inputs, recursive);
    let allowed = match &sel {
        Some(s) => allowed_paths(files, s, !matches!(mode, Mode::Clean)),
        None => BTreeSet::new(), // unresolvable input: nothing may change
    };
    let mname = crate::run::mode_name(&mode);
    for p in d.all_paths() {
        if !allowed.contains(&p) {
            let what = if decoys.contains_key(&p) { "decoy" } else if model::is_txtpp(&p) { "source" } else if files.contains_key(&p) { "static-file" } else if model::sources(files).iter().any(|s| model::output_of(s).as_deref() == Some(p.as_str())) { "output-of-unprocessed-source" } else { "other-path" };
            ctx.violation(format!("C10:{mname}:touched-{what}"), format!("{mname} (verdict {}) created/modified/deleted {p}, which is not an output or temp target of the processed sources (inputs {inputs:?}, recursive {recursive})", o.verdict.short()), cj.clone());
        }
    }
    if !d.dirs_created.is_empty() || !d.dirs_deleted.is_empty() {
        ctx.violation(format!("C10:{mname}:directory-changed"), format!("directories created {:?} removed {:?}", d.dirs_created, d.dirs_deleted), cj.clone());
    }
    match mode {
        Mode::Verify => {
            for p in d.all_paths() {
                if model::sources(files).iter().any(|s| model::output_of(s).as_deref() == Some(p.as_str())) {
                    ctx.violation("C10:verify:touched-output", format!("verify changed output {p}"), cj.clone());
                }
            }
        }
        Mode::Clean => {
            if !d.created.is_empty() || !d.content.is_empty() {
                ctx.violation("C10:clean:created-or-modified", format!("clean created {:?} / modified {:?}", d.created, d.content), cj.clone());
            }
        }
        _ => {}
    }
    if !d.is_empty() || !o.verdict.is_ok() {
        ctx.distinct.insert(case.hash() ^ crate::util::hash_str(&format!("{prebuild}")));
    }
    ctx.cover("modes", mname);
    ctx.cover("verdicts", if o.verdict.is_ok() { "ok" } else { "err" });
    ctx.scratch.discard(&root);
}

fn c10_strace(ctx: &mut Ctx, files: &Files, trailing: bool, mode: Mode) {
    let root = ctx.scratch.fresh();
    let mut all = files.clone();
    all.extend(decoys_for(files));
    materialize(&root, &all, &[]);
    let mut case = ProjectCase::simple(files.clone());
    case.trailing = trailing;
    if !matches!(mode, Mode::Build | Mode::InMemoryBuild) {
        let _ = run_at(&root, &case, Mode::Build, trailing);
    }
    let prefix = ctx.scratch.root.join("strace").join("t");
    let _ = std::fs::remove_dir_all(prefix.parent().unwrap());
    let _ = std::fs::create_dir_all(prefix.parent().unwrap());
    let cfg = RunCfg { base: root.clone(), inputs: vec![".".into()], mode: mode.clone(), threads: 2, recursive: true, trailing, shell: String::new() };
    let _o = run_cli(&root, &cfg.cli_args(), &CliOpts { strace_prefix: Some(prefix.clone()), ..Default::default() });
    ctx.evals += 1;
    ctx.count("straced_cli_runs", 1);
    let tr = crate::sys::parse_strace(prefix.parent().unwrap(), &root);
    ctx.count("syscalls_classified", tr.lines_by_txtpp as u64);
    let sel: BTreeSet<String> = model::sources(files).into_iter().collect();
    let allowed = allowed_paths(files, &sel, true);
    for w in tr.writes.iter().chain(tr.deletes.iter()).chain(tr.creates.iter()) {
        if let Ok(rel) = w.strip_prefix(&root) {
            let rel = rel.to_string_lossy().to_string();
            if !allowed.contains(&rel) {
                ctx.violation(format!("C10:{}:syscall-write-outside-allowed", crate::run::mode_name(&mode)), format!("txtpp issued a write-open/create/unlink/rename on {rel}"), case.to_json());
            }
        } else if !w.starts_with("/dev") && !w.starts_with("/proc") {
            ctx.violation(format!("C10:{}:syscall-write-outside-tree", crate::run::mode_name(&mode)), format!("txtpp wrote outside the project: {}", w.display()), case.to_json());
        }
    }
    ctx.scratch.discard(&root);
}

/// CLI flag combinations: a top-level `-N` in front of a subcommand must not turn verify / clean
/// into something that writes
fn c10_cli_combos(ctx: &mut Ctx, files: &Files, trailing: bool) {
    for (args, sub) in [(vec!["-N", "verify", "-q", "-r", "."], "verify"), (vec!["-N", "clean", "-q", "-r", "."], "clean"), (vec!["-N", "verify", "-q", "-r", "-n", "."], "verify")] {
        for stale in [false, true] {
            let root = ctx.scratch.fresh();
            let mut all = files.clone();
            all.extend(decoys_for(files));
            materialize(&root, &all, &[]);
            let mut case = ProjectCase::simple(files.clone());
            case.trailing = trailing;
            if stale {
                let _ = run_at(&root, &case, Mode::Build, trailing);
                for s in model::sources(files) {
                    let o = root.join(model::output_of(&s).unwrap());
                    if let Ok(mut b) = std::fs::read(&o) {
                        b.extend_from_slice(b"stale\n");
                        let _ = std::fs::write(&o, b);
                    }
                }
            }
            set_sentinels(&root);
            let s0 = snap(&root);
            let a: Vec<String> = args.iter().map(|x| x.to_string()).collect();
            let o = run_cli(&root, &a, &CliOpts::default());
            ctx.evals += 1;
            ctx.count("cli_flag_combination_runs", 1);
            let s1 = snap(&root);
            let d = diff(&s0, &s1);
            let outs: Vec<String> = model::sources(files).iter().map(|s| model::output_of(s).unwrap()).collect();
            let cj = json!({"kind": "cli-combo", "args": a, "stale": stale, "files": files_json(files), "trailing": trailing});
            if sub == "verify" {
                for p in d.all_paths() {
                    if outs.contains(&p) {
                        ctx.violation("C10:cli:verify-with-N-touched-output", format!("`txtpp {}` changed output {p} (exit {:?})", a.join(" "), o.code), cj.clone());
                    }
                }
                // verify may (re)create temp targets of the processed sources, nothing else
                let sel: BTreeSet<String> = model::sources(files).into_iter().collect();
                let allowed = allowed_paths(files, &sel, true);
                let bad: Vec<&String> = d.created.iter().filter(|p| outs.contains(p) || !allowed.contains(*p)).collect();
                if !bad.is_empty() {
                    ctx.violation("C10:cli:verify-with-N-created", format!("`txtpp {}` created {bad:?} (not temp targets)", a.join(" ")), cj.clone());
                }
            } else if !d.created.is_empty() || !d.content.is_empty() {
                ctx.violation("C10:cli:clean-with-N-created-or-modified", format!("`txtpp {}` created {:?} / modified {:?}", a.join(" "), d.created, d.content), cj.clone());
            }
            ctx.distinct.insert(crate::util::hash_files(files) ^ crate::util::hash_str(&format!("{a:?}{stale}")));
            ctx.scratch.discard(&root);
        }
    }
}

/// An output path that is a symbolic link to a regular file elsewhere: verify touches nothing, and
/// the only path clean may remove is the output path itself (the link), never the file behind it.
fn c10_symlinked_output(ctx: &mut Ctx, r: &mut StdRng) {
    let root = ctx.scratch.fresh();
    let mut files = Files::new();
    files.insert("site/index.html.txtpp".into(), b"<html>\n<!-- TXTPP#run echo body\n</html>\n".to_vec());
    files.insert("site/about.txtpp.html".into(), b"about\n".to_vec());
    files.insert("shared/index.html".into(), b"<html>\nbody\n</html>\n".to_vec());
    files.insert("shared/about.html".into(), b"shared about page, not generated\n".to_vec());
    materialize(&root, &files, &[]);
    let _ = std::os::unix::fs::symlink("../shared/index.html", root.join("site/index.html"));
    let _ = std::os::unix::fs::symlink(root.join("shared/about.html"), root.join("site/about.html"));
    set_sentinels(&root);
    let mut case = ProjectCase::simple(files.clone());
    case.threads = [1, 2, 4][r.gen_range(0..3)];
    case.inputs = vec![[".", "site", "site/index.html.txtpp"][r.gen_range(0..3)].to_string()];
    let mode = if r.gen_bool(0.5) { Mode::Clean } else { Mode::Verify };
    let name = crate::run::mode_name(&mode);
    let cj = json!({"kind": "symlinked-output", "mode": name, "inputs": case.inputs, "threads": case.threads});
    let s0 = snap(&root);
    let o = run_at(&root, &case, mode.clone(), true);
    ctx.evals += 1;
    ctx.count("symlinked_output_cases", 1);
    if matches!(o.verdict, Verdict::Watchdog) {
        ctx.inconclusive("watchdog (symlinked output)");
        ctx.scratch.discard(&root);
        return;
    }
    let s1 = snap(&root);
    let d = diff(&s0, &s1);
    let outputs = ["site/index.html", "site/about.html"];
    for p in d.all_paths() {
        let is_output = outputs.contains(&p.as_str());
        if matches!(mode, Mode::Verify) || !is_output {
            ctx.violation(
                format!("C10:{name}:touched-other-path"),
                format!("{name} created/changed/deleted {p}{}", if p.starts_with("shared/") { " (the regular file behind an output path that is a symbolic link; not an output path)" } else { "" }),
                cj.clone(),
            );
        }
    }
    ctx.distinct.insert(crate::util::hash_str(&cj.to_string()));
    ctx.scratch.discard(&root);
}

/// Directive paths that must be taken literally: a backslash in a temp FILE_PATH is an ordinary
/// file-name character here (`gen\rows.txt` is one file beside the source, not `gen/rows.txt`), and
/// `include x.txt.txtpp` splices the *source text* of another source without making it a
/// dependency (its output and temp files are not to be produced when only the includer is named).
fn c10_literal_paths(ctx: &mut Ctx, r: &mut StdRng) {
    let root = ctx.scratch.fresh();
    let mut files = Files::new();
    files.insert("page.txt.txtpp".into(), b"page\n-TXTPP#temp gen\\rows.txt\n-row 1\n-row 2\nend\n".to_vec());
    files.insert("gen/rows.txt".into(), b"hand-written rows: must stay untouched\n".to_vec());
    files.insert("gen/keep.txt".into(), b"keep\n".to_vec());
    files.insert("includer.txt.txtpp".into(), format!("-TXTPP#{} foo.txt.txtpp\nincluder body\n", ["include", "after"][r.gen_range(0..2)]).into_bytes());
    files.insert("foo.txt.txtpp".into(), b"// TXTPP#temp foo.g.txt\n// generated by foo\n\nfoo body\n".to_vec());
    materialize(&root, &files, &[]);
    let mut case = ProjectCase::simple(files.clone());
    case.inputs = vec!["page.txt".into(), "includer.txt".into()];
    case.recursive = false;
    case.threads = [1, 2, 4][r.gen_range(0..3)];
    let allowed = ["page.txt", "gen\\rows.txt", "includer.txt"];
    let seq = [Mode::Build, Mode::InMemoryBuild, Mode::Verify, Mode::Clean, Mode::InMemoryBuild];
    for (step, mode) in seq.iter().enumerate() {
        set_sentinels(&root);
        let s0 = snap(&root);
        let o = run_at(&root, &case, mode.clone(), true);
        ctx.evals += 1;
        if matches!(o.verdict, Verdict::Watchdog) {
            break;
        }
        let name = crate::run::mode_name(mode);
        let cj = json!({"kind": "literal-paths", "step": step, "mode": name, "threads": case.threads});
        let d = diff(&s0, &snap(&root));
        for p in d.all_paths() {
            if !allowed.contains(&p.as_str()) {
                ctx.violation(
                    format!("C10:{name}:{}", if p == "gen/rows.txt" { "touched-decoy" } else { "touched-output-of-unprocessed-source" }),
                    format!("{name} (step {step}, inputs page.txt includer.txt) created/changed/deleted {p}; allowed are only page.txt, includer.txt and the temp target literally named `gen\\rows.txt`"),
                    cj.clone(),
                );
            }
        }
        if step == 0 && o.verdict.is_ok() && !root.join("gen\\rows.txt").exists() {
            ctx.violation("C10:build:touched-other-path", "the temp target named `gen\\rows.txt` was not written under that literal name".to_string(), cj.clone());
        }
    }
    ctx.count("literal_path_cases", 1);
    ctx.distinct.insert(crate::util::hash_str(&format!("literal{}{}", case.threads, ctx.evals)));
    ctx.scratch.discard(&root);
}

fn run_c10(ctx: &mut Ctx) {
    let mut r = StdRng::seed_from_u64(ctx.shard_seed());
    let n = ctx.tier.pick(300, 12_000);
    for i in 0..n {
        if !ctx.time_left() || ctx.violations.len() > 20 {
            break;
        }
        if i % 40 == 5 {
            // sources with names that are not valid UTF-8 + decoys at the lossy spellings of their outputs
            let (findings, cj) = crate::props::rawnames::scenario(ctx, &mut r);
            for f in findings.iter().filter(|f| f.class == "touched") {
                ctx.violation(format!("C10:{}:touched-decoy", f.mode), f.msg.clone(), cj.clone());
            }
            ctx.distinct.insert(crate::util::hash_str(&format!("raw{i}{}", ctx.shard)));
        }
        if i % 20 == 9 {
            c10_symlinked_output(ctx, &mut r);
        }
        if i % 30 == 4 {
            c10_literal_paths(ctx, &mut r);
        }
        let opts = GenOpts { error_pct: if i % 3 == 0 { 15 } else { 0 }, ..GenOpts::default() };
        let mut p = gen_project(&mut r, &opts);
        if i % 3 == 0 && r.gen_bool(0.4) {
            // an (erroneous) temp directive naming an existing source of the `stem.txtpp.ext` shape:
            // whatever the verdict, that source must keep its bytes in every mode
            let srcs = model::sources(&p.files);
            let s = srcs[r.gen_range(0..srcs.len())].clone();
            if let Some(victim) = srcs.iter().find(|x| **x != s && !x.ends_with(".txtpp")) {
                let mut text = String::from_utf8_lossy(&p.files[&s]).to_string();
                if !text.is_empty() && !text.ends_with('\n') {
                    text.push('\n');
                }
                text.push_str(&format!("<!--c TXTPP#temp {}\n<!--c overwritten\n", crate::gen::rel(model::dir_of(&s), victim)));
                p.files.insert(s, text.into_bytes());
                ctx.count("projects_with_a_temp_directive_naming_a_source", 1);
            }
        }
        let pre = model::evaluate(&p.files, "/nonexistent", p.trailing, &model::sources(&p.files));
        if pre.out_of_domain.is_some() {
            continue;
        }
        let srcs = model::sources(&p.files);
        for mode in [Mode::Build, Mode::InMemoryBuild, Mode::Verify, Mode::Clean] {
            let recursive = r.gen_bool(0.5);
            let inputs: Vec<String> = match r.gen_range(0..5) {
                0 => vec![".".into()],
                1 => vec!["sub".into()],
                2 => vec![srcs[r.gen_range(0..srcs.len())].clone()],
                3 => vec![model::output_of(&srcs[r.gen_range(0..srcs.len())]).unwrap(), "other".into()],
                _ => vec![".".into(), "sub/deep".into()],
            };
            let prebuild = !matches!(mode, Mode::Build) && r.gen_bool(0.6);
            c10_case(ctx, &p.files, p.trailing, mode, inputs, recursive, prebuild, [1, 2, 4][r.gen_range(0..3)]);
        }
        if i < ctx.tier.pick(1, 10) {
            for mode in [Mode::Build, Mode::InMemoryBuild, Mode::Verify, Mode::Clean] {
                c10_strace(ctx, &p.files, p.trailing, mode);
            }
            if pre.verdict.is_ok() {
                c10_cli_combos(ctx, &p.files, p.trailing);
            }
        }
        if i == 0 {
            ctx.sample(|| json!({"sources": srcs, "decoys": decoys_for(&p.files).keys().cloned().collect::<Vec<_>>()}));
        }
    }
}

fn replay_c10(ctx: &mut Ctx, v: &Value) {
    if v["kind"].as_str() == Some("symlinked-output") {
        let mut r = StdRng::seed_from_u64(5);
        for _ in 0..30 {
            c10_symlinked_output(ctx, &mut r);
        }
        return;
    }
    if v["kind"].as_str() == Some("literal-paths") {
        let mut r = StdRng::seed_from_u64(5);
        for _ in 0..12 {
            c10_literal_paths(ctx, &mut r);
        }
        return;
    }
    if v["kind"].as_str() == Some("raw-names") {
        let mut r = StdRng::seed_from_u64(3);
        for _ in 0..10 {
            let (findings, cj) = crate::props::rawnames::scenario(ctx, &mut r);
            for f in findings.iter().filter(|f| f.class == "touched") {
                ctx.violation(format!("C10:{}:touched-decoy", f.mode), f.msg.clone(), cj.clone());
            }
        }
        return;
    }
    if v["kind"].as_str() == Some("cli-combo") {
        c10_cli_combos(ctx, &crate::util::files_from_json(&v["files"]), v["trailing"].as_bool().unwrap_or(true));
        return;
    }
    let case = ProjectCase::from_json(v);
    c10_case(ctx, &case.files, case.trailing, case.mode.clone(), case.inputs.clone(), case.recursive, v["prebuild"].as_bool().unwrap_or(false), case.threads);
}
