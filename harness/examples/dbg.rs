use vh::gen::*;
use vh::model;
fn main() {
    let mut reasons = std::collections::BTreeMap::new();
    for mask in 0..512u64 {
        let g0 = Graph::from_mask(3, mask, 0);
        if !g0.is_acyclic() { continue; }
        for kinds in [0, mask & 0x1_5555_5555] {
        let g = Graph::from_mask(3, mask, kinds);
        let files = graph_files(&g, 1, 7, Some("/dev/shm/txtpp-verif.3932.C02.0/logs/m.log"), if kinds!=0 {Some("/dev/shm/txtpp-verif.3932.C02.0/logs/o.log")} else {None}, false);
        let e = model::evaluate(&files, "/dev/shm/x", true, &model::sources(&files));
        if let Some(r) = e.out_of_domain { *reasons.entry(r).or_insert(0) += 1; }
        }
    }
    println!("{reasons:#?}");
}
